// ===== trusted prelude: std::net (SocketAddr is a transparent enum: the code matches on V4/V6) =====
#[verifier::external_type_specification]
pub struct ExSocketAddr(SocketAddr);
#[verifier::external_type_specification]
#[verifier::external_body]
pub struct ExSocketAddrV4(SocketAddrV4);
#[verifier::external_type_specification]
#[verifier::external_body]
pub struct ExSocketAddrV6(SocketAddrV6);
pub assume_specification[ <SocketAddr as PartialEq>::eq ](a: &SocketAddr, b: &SocketAddr) -> (r: bool)
    ensures r == (*a == *b);
// TRUSTED: SocketAddr's Hash/Eq agree (std derive on plain data)
pub broadcast axiom fn sockaddr_key_model() ensures #[trigger] vstd::std_specs::hash::obeys_key_model::<SocketAddr>();
