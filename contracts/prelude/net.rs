// ===== trusted prelude: std::net =====
#[verifier::external_type_specification]
#[verifier::external_body]
pub struct ExSocketAddr(SocketAddr);
pub assume_specification[ <SocketAddr as PartialEq>::eq ](a: &SocketAddr, b: &SocketAddr) -> (r: bool)
    ensures r == (*a == *b);
