// ===== trusted prelude: std::net =====
#[verifier::external_type_specification]
#[verifier::external_body]
pub struct ExSocketAddr(SocketAddr);
pub assume_specification[ <SocketAddr as PartialEq>::eq ](a: &SocketAddr, b: &SocketAddr) -> (r: bool)
    ensures r == (*a == *b);
// TRUSTED: SocketAddr's Hash/Eq agree (std derive on plain data)
pub broadcast axiom fn sockaddr_key_model() ensures #[trigger] vstd::std_specs::hash::obeys_key_model::<SocketAddr>();
