// ===== trusted prelude: IpAddr (transparent: the code matches on V4/V6), Ipv4Addr / Ipv6Addr opaque =====
#[verifier::external_type_specification]
#[verifier::external_body]
pub struct ExIpv4Addr(Ipv4Addr);
#[verifier::external_type_specification]
#[verifier::external_body]
pub struct ExIpv6Addr(Ipv6Addr);
#[verifier::external_type_specification]
pub struct ExIpAddr(IpAddr);
