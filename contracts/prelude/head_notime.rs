// ===== trusted prelude: head (outside verus!) =====
#![feature(allocator_api)]
#![verifier::loop_isolation(false)]
#![allow(unused_imports, dead_code, unused_variables, unused_mut, unused_parens, non_snake_case, unreachable_code, unused_assignments)]
use vstd::prelude::*;
use std::collections::{HashMap, HashSet};
use std::net::{SocketAddr, IpAddr, Ipv4Addr, Ipv6Addr, SocketAddrV4, SocketAddrV6};
use std::time::Duration;
use std::ops::{Add, Sub};
use std::cmp::Ordering;
use std::io;
use std::sync::Arc;
use std::borrow::Cow;
use vstd::std_specs::cmp::{PartialOrdSpec, PartialEqSpec, PartialEqSpecImpl};
use vstd::std_specs::iter::IteratorSpec;
use vstd::std_specs::hash::*;

use std::collections::BTreeMap;

verus! {
