// ===== trusted prelude: time (Duration, crate::time::Instant) =====
#[verifier::external_type_specification]
#[verifier::external_body]
pub struct ExInstant(Instant);

pub uninterp spec fn dur_nanos(d: Duration) -> nat;
pub uninterp spec fn inst_nanos(i: Instant) -> int;
/// the clock is frozen during one synchronous call (assumption, DESIGN 2.5)
pub uninterp spec fn clock() -> int;
pub assume_specification[ Duration::from_secs ](secs: u64) -> (d: Duration)
    ensures dur_nanos(d) == secs as nat * 1_000_000_000;
pub assume_specification[ Duration::from_millis ](ms: u64) -> (d: Duration)
    ensures dur_nanos(d) == ms as nat * 1_000_000;
pub assume_specification[ Duration::as_secs ](d: &Duration) -> (s: u64)
    ensures s as nat == dur_nanos(*d) / 1_000_000_000;
pub assume_specification[ Instant::now ]() -> (i: Instant)
    ensures inst_nanos(i) == clock();
pub assume_specification[ Instant::checked_sub ](s: &Instant, d: Duration) -> (r: Option<Instant>)
    ensures r is Some, inst_nanos(r->0) == inst_nanos(*s) - dur_nanos(d);
pub open spec fn cmp_nat(a: nat, b: nat) -> core::cmp::Ordering {
    if a < b { core::cmp::Ordering::Less } else if a == b { core::cmp::Ordering::Equal } else { core::cmp::Ordering::Greater }
}
pub open spec fn cmp_int(a: int, b: int) -> core::cmp::Ordering {
    if a < b { core::cmp::Ordering::Less } else if a == b { core::cmp::Ordering::Equal } else { core::cmp::Ordering::Greater }
}
pub broadcast axiom fn duration_ord_ax(a: Duration, b: Duration)
    ensures <Duration as PartialOrdSpec<Duration>>::obeys_partial_cmp_spec(),
       #[trigger] a.partial_cmp_spec(&b) == Some(cmp_nat(dur_nanos(a), dur_nanos(b)));
pub broadcast axiom fn instant_ord_ax(a: Instant, b: Instant)
    ensures <Instant as PartialOrdSpec<Instant>>::obeys_partial_cmp_spec(),
       #[trigger] a.partial_cmp_spec(&b) == Some(cmp_int(inst_nanos(a), inst_nanos(b)));
pub uninterp spec fn inst_sub(a: Instant, b: Instant) -> Duration;
/// std: `Instant - Instant` saturates at zero
pub broadcast axiom fn inst_sub_ax(a: Instant, b: Instant)
    ensures #[trigger] dur_nanos(inst_sub(a,b)) == if inst_nanos(a) >= inst_nanos(b) { (inst_nanos(a) - inst_nanos(b)) as nat } else { 0 };
impl vstd::std_specs::ops::SubSpecImpl<Instant> for Instant {
    open spec fn obeys_sub_spec() -> bool { true }
    open spec fn sub_req(self, rhs: Instant) -> bool { true }
    open spec fn sub_spec(self, rhs: Instant) -> Duration { inst_sub(self, rhs) }
}
pub uninterp spec fn inst_add(a: Instant, d: Duration) -> Instant;
pub broadcast axiom fn inst_add_ax(a: Instant, d: Duration)
    ensures #[trigger] inst_nanos(inst_add(a,d)) == inst_nanos(a) + dur_nanos(d);
impl vstd::std_specs::ops::AddSpecImpl<Duration> for Instant {
    open spec fn obeys_add_spec() -> bool { true }
    open spec fn add_req(self, rhs: Duration) -> bool { true }
    open spec fn add_spec(self, rhs: Duration) -> Instant { inst_add(self, rhs) }
}
