// ===== trusted prelude: rand::random returns an arbitrary value on every call =====
pub mod rand {
    use super::*;
    #[verifier::external_body]
    pub fn random<T>() -> T { unimplemented!() }
}
