// ===== verified helpers standing in for std adapters without a vstd spec (rules R-assert, R-pos) =====
pub fn vx_assert(b: bool) requires b {}

pub fn vx_position<T, F: Fn(&T) -> bool>(s: &[T], f: F) -> (r: Option<usize>)
    requires forall|i: int| 0 <= i < s.len() ==> call_requires(f, (&s[i],)),
    ensures match r {
        Some(k) => k < s.len() && call_ensures(f, (&s[k as int],), true)
                   && forall|j: int| 0 <= j < k ==> call_ensures(f, (&s[j],), false),
        None => forall|j: int| 0 <= j < s.len() ==> call_ensures(f, (&s[j],), false),
    }
{
    let mut i: usize = 0;
    while i < s.len()
        invariant i <= s.len(),
            forall|i: int| 0 <= i < s.len() ==> call_requires(f, (&s[i],)),
            forall|j: int| 0 <= j < i ==> call_ensures(f, (&s[j],), false),
        decreases s.len() - i,
    {
        if f(&s[i]) { return Some(i); }
        i += 1;
    }
    None
}
