// ===== trusted prelude: SocketAddr accessors (needs prelude/ip.rs) =====
pub uninterp spec fn sa_ip(a: SocketAddr) -> IpAddr;
pub uninterp spec fn sa_port(a: SocketAddr) -> u16;
pub open spec fn sa_is_v4(a: SocketAddr) -> bool { a is V4 }
pub assume_specification [SocketAddr::set_port] (a: &mut SocketAddr, p: u16)
    ensures sa_ip(*final(a)) == sa_ip(*old(a)), sa_port(*final(a)) == p, sa_is_v4(*final(a)) == sa_is_v4(*old(a));
pub assume_specification [SocketAddr::ip] (a: &SocketAddr) -> (r: IpAddr) ensures r == sa_ip(*a);
pub assume_specification [SocketAddr::port] (a: &SocketAddr) -> (r: u16) ensures r == sa_port(*a);
pub assume_specification [SocketAddr::is_ipv4] (a: &SocketAddr) -> (r: bool) ensures r == sa_is_v4(*a);
pub assume_specification [SocketAddr::is_ipv6] (a: &SocketAddr) -> (r: bool) ensures r == !sa_is_v4(*a);
pub assume_specification<T> [<[T]>::to_vec] (s: &[T]) -> (r: Vec<T>) where T: std::clone::Clone ensures r@ == s@;
