// ===== trusted prelude: head (outside verus!) =====
#![feature(allocator_api)]
#![verifier::loop_isolation(false)]
#![allow(unused_imports, dead_code, unused_variables, unused_mut, unused_parens, non_snake_case, unreachable_code, unused_assignments)]
use vstd::prelude::*;
use std::collections::{HashMap, HashSet};
use std::net::{SocketAddr, IpAddr, Ipv4Addr, Ipv6Addr, SocketAddrV4, SocketAddrV6};
use std::time::Duration;
use std::ops::{Add, Sub};
use std::cmp::Ordering;
use std::io;
use std::sync::Arc;
use std::borrow::Cow;
use vstd::std_specs::cmp::{PartialOrdSpec, PartialEqSpec, PartialEqSpecImpl};
use vstd::std_specs::iter::IteratorSpec;
use vstd::std_specs::hash::*;

// TRUSTED stand-in for /repo/src/time.rs (81 lines wrapping std::time::Instant, shifted by one week)
#[derive(Clone, Copy, PartialOrd, PartialEq, Ord, Eq)]
pub struct Instant { std_instant: std::time::Instant }
impl Instant {
    pub fn now() -> Self { Self { std_instant: std::time::Instant::now() } }
    pub fn checked_sub(&self, rhs: Duration) -> Option<Self> { self.std_instant.checked_sub(rhs).map(|std_instant| Self { std_instant }) }
}
impl Add<Duration> for Instant { type Output = Self; fn add(self, rhs: Duration) -> Self { Self { std_instant: self.std_instant + rhs } } }
impl Sub<Instant> for Instant { type Output = Duration; fn sub(self, rhs: Instant) -> Duration { self.std_instant - rhs.std_instant } }

verus! {
