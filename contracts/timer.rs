//@include prelude/head_notime.rs
//@include inc/timer_body.rs
} // verus!
fn main() {}
