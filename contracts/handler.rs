//@include prelude/head.rs
//@include prelude/time.rs
//@include prelude/ip.rs
//@include prelude/net.rs
//@include prelude/net2.rs
//@include prelude/rand.rs
//@include prelude/helpers.rs
//@include inc/info_hash_types.rs
//@include inc/node_handle.rs
//@include inc/message_types.rs
//@include inc/token_body.rs
//@include inc/storage_body.rs
//@include inc/txid_types.rs
//@include inc/world_core.rs
//@include inc/world_mid_standin.rs
//@include inc/blen.rs
//@include inc/world_lookup_standin.rs
//@include inc/handler_body.rs
} // verus!
fn main() {}
