//@include prelude/head.rs
//@include prelude/time.rs
//@include prelude/net.rs
//@include inc/info_hash_types.rs
//@include inc/storage_body.rs
} // verus!
fn main() {}
