//@include prelude/head.rs
//@include prelude/net.rs
//@include inc/info_hash_types.rs
//@include inc/node_handle.rs
//@include inc/message_types.rs
//@include inc/message_body.rs
} // verus!
fn main() {}
