//@include prelude/head.rs
//@include prelude/time.rs
//@include prelude/ip.rs
//@include prelude/rand.rs
//@include inc/info_hash_types.rs
//@include inc/token_body.rs
} // verus!
fn main() {}
