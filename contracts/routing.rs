//@include prelude/head.rs
//@include prelude/time.rs
//@include prelude/net.rs
//@include prelude/helpers.rs

// ================= info_hash.rs (types only; bit-level facts come from Kani, see lbc_ax) =================
//@begin const src/info_hash.rs - INFO_HASH_LEN
pub const INFO_HASH_LEN: usize = 20;
//@end
//@begin type src/info_hash.rs - struct InfoHash
#[derive(Structural, Copy, Clone, PartialEq, Eq)]
pub struct InfoHash(pub [u8; INFO_HASH_LEN]);
//@end
//@begin type src/info_hash.rs - type NodeId
pub type NodeId = InfoHash;
//@end

// ================= node.rs =================
//@begin const src/node.rs - MAX_LAST_SEEN_MINS
pub const MAX_LAST_SEEN_MINS: u64 = 15;
//@end
//@begin const src/node.rs - MAX_REFRESH_REQUESTS
pub const MAX_REFRESH_REQUESTS: usize = 2;
//@end

//@begin type src/node.rs - enum NodeStatus
#[derive(Structural, Copy, Clone, PartialEq, Eq, PartialOrd, Ord)]
pub enum NodeStatus {
    Bad,
    Questionable,
    Good,
}
//@end

pub open spec fn rank(s: NodeStatus) -> int { match s { NodeStatus::Bad => 0, NodeStatus::Questionable => 1, NodeStatus::Good => 2 } }
// TRUSTED: derived PartialOrd on a field-less enum orders variants by declaration order (Rust reference)
pub broadcast axiom fn node_status_ord_ax(a: NodeStatus, b: NodeStatus)
    ensures <NodeStatus as PartialOrdSpec<NodeStatus>>::obeys_partial_cmp_spec(),
       #[trigger] a.partial_cmp_spec(&b) == Some(cmp_int(rank(a), rank(b)));

//@begin type src/node.rs - struct Node
pub struct Node {
    pub handle: NodeHandle,
    pub last_request: Option<Instant>,
    pub last_response: Option<Instant>,
    pub last_local_request: Option<Instant>,
    pub refresh_requests: usize,
}
//@end
// TRUSTED: derived Clone on a struct of value-semantic fields is field-wise
impl Clone for Node {
    #[verifier::external_body]
    fn clone(&self) -> (r: Node) ensures r == *self { unimplemented!() }
}

//@begin type src/node.rs - struct NodeHandle
pub struct NodeHandle {
    pub id: NodeId,
    pub addr: SocketAddr,
}
//@end
// TRUSTED: derived Copy/Clone/PartialEq on NodeHandle are field-wise (SocketAddr is external, so `Structural` cannot be derived)
impl Clone for NodeHandle { #[verifier::external_body] fn clone(&self) -> (r: Self) ensures r == *self { unimplemented!() } }
impl Copy for NodeHandle {}
impl PartialEqSpecImpl for NodeHandle {
    open spec fn obeys_eq_spec() -> bool { true }
    open spec fn eq_spec(&self, other: &NodeHandle) -> bool { self.id == other.id && self.addr == other.addr }
}
impl PartialEq for NodeHandle {
    fn eq(&self, other: &NodeHandle) -> bool {
        self.id == other.id && self.addr == other.addr
    }
}

// ---------- abstract record: what the status of a contact depends on (nanoseconds on the node's clock) ----------
pub struct F { pub lr: Option<int>, pub lq: Option<int>, pub rr: nat }
/// 15 minutes in nanoseconds -- written from BEP5 ("15 minutes"), not from the code
pub open spec fn Q15() -> int { 900_000_000_000int }
/// BEP5 standing of a record at time t -- written from the property statement
pub open spec fn f_status(f: F, t: int) -> NodeStatus {
    match f.lr {
        None => NodeStatus::Bad,
        Some(r) => if t - r < Q15() { NodeStatus::Good }
           else if f.rr >= 2 { NodeStatus::Bad }
           else if f.lq is Some && t - f.lq->0 < Q15() { NodeStatus::Good }
           else { NodeStatus::Questionable }
    }
}
pub open spec fn on(o: Option<Instant>) -> Option<int> { match o { Some(i) => Some(inst_nanos(i)), None => None } }
pub open spec fn f_good(t: int) -> F { F { lr: Some(t), lq: None, rr: 0 } }
pub open spec fn f_hearsay(t: int) -> F { F { lr: Some(t - Q15()), lq: None, rr: 0 } }
pub open spec fn f_update(f: F, o: F, t: int) -> F {
    match (f_status(f, t), f_status(o, t)) {
        (NodeStatus::Good, NodeStatus::Good) => F { lr: o.lr, lq: f.lq, rr: 0 },
        (NodeStatus::Questionable, NodeStatus::Good) => o,
        (NodeStatus::Bad, NodeStatus::Good) => o,
        (NodeStatus::Bad, NodeStatus::Questionable) => o,
        _ => f,
    }
}
pub open spec fn f_local_request(f: F, t: int) -> F {
    if f_status(f, t) != NodeStatus::Good && f.rr < usize::MAX { F { rr: f.rr + 1, ..f } } else { f }
}
pub open spec fn f_remote_request(f: F, t: int) -> F { F { lq: Some(t), ..f } }

impl Node {
    pub open spec fn abs(&self) -> F { F { lr: on(self.last_response), lq: on(self.last_request), rr: self.refresh_requests as nat } }
    pub open spec fn status_at(&self, now: int) -> NodeStatus { f_status(self.abs(), now) }
    /// type invariant of records built by this crate: no timestamp lies in the future
    pub open spec fn wf(&self) -> bool {
        (self.last_response is Some ==> inst_nanos(self.last_response->0) <= clock())
        && (self.last_request is Some ==> inst_nanos(self.last_request->0) <= clock())
    }
    pub open spec fn update_spec(self, other: Node) -> Node {
        match (self.status_at(clock()), other.status_at(clock())) {
            (NodeStatus::Good, NodeStatus::Good) => Node { handle: self.handle, last_response: other.last_response, last_request: self.last_request, last_local_request: self.last_local_request, refresh_requests: 0 },
            (NodeStatus::Questionable, NodeStatus::Good) => other,
            (NodeStatus::Bad, NodeStatus::Good) => other,
            (NodeStatus::Bad, NodeStatus::Questionable) => other,
            _ => self,
        }
    }

//@begin fn src/node.rs impl:Node as_good props=C10,C12,C08
    pub fn as_good(id: NodeId, addr: SocketAddr) -> (r: Node)
        ensures r.handle.id == id, r.handle.addr == addr, r.wf(),
            r.abs() == f_good(clock()), // @C10.answer_record
            r.status_at(clock()) == NodeStatus::Good, // @C10.answer_good_immediately
    {
        Node {
            handle: NodeHandle { id, addr },
            last_response: Some(Instant::now()),
            last_request: None,
            last_local_request: None,
            refresh_requests: 0,
        }
    }
//@end

//@begin fn src/node.rs impl:Node as_questionable props=C10,C12,C08
    pub fn as_questionable(id: NodeId, addr: SocketAddr) -> (r: Node)
        ensures r.handle.id == id, r.handle.addr == addr, r.wf(),
            r.abs() == f_hearsay(clock()), // @C10.hearsay_record
            r.status_at(clock()) == NodeStatus::Questionable, // @C12.hearsay_admitted_questionable
    {
        let last_response_offset = Duration::from_secs(MAX_LAST_SEEN_MINS * 60);
        let last_response = Instant::now().checked_sub(last_response_offset).unwrap();

        Node {
            handle: NodeHandle { id, addr },
            last_response: Some(last_response),
            last_request: None,
            last_local_request: None,
            refresh_requests: 0,
        }
    }
//@end

//@begin fn src/node.rs impl:Node as_bad props=C10,C08
    pub fn as_bad(id: NodeId, addr: SocketAddr) -> (r: Node)
        ensures r.handle.id == id, r.handle.addr == addr, r.wf(),
            r.last_response is None,
            r.status_at(clock()) == NodeStatus::Bad, // @C10.never_answered_is_bad
    {
        Node {
            handle: NodeHandle { id, addr },
            last_response: None,
            last_request: None,
            last_local_request: None,
            refresh_requests: 0,
        }
    }
//@end

//@begin fn src/node.rs impl:Node update props=C10,C08
    pub fn update(&mut self, other: Node)
        requires old(self).handle == other.handle, old(self).wf(), other.wf(),
            other.last_request is None || old(self).status_at(clock()) != NodeStatus::Good,
        ensures final(self).handle == old(self).handle, final(self).wf(),
            *final(self) == old(self).update_spec(other), // @C08.update_in_place
            final(self).abs() == f_update(old(self).abs(), other.abs(), clock()), // @C10.update_transition
            real(*old(self)) ==> real(*final(self)),
            rank(final(self).status_at(clock())) >= rank(old(self).status_at(clock())), // @C08.update_never_downgrades
            other.status_at(clock()) == NodeStatus::Good ==> final(self).status_at(clock()) == NodeStatus::Good, // @C10.answer_good_immediately
    {
        vx_assert(self.handle == other.handle);

        let self_status = self.status();
        let other_status = other.status();

        match (self_status, other_status) {
            (NodeStatus::Good, NodeStatus::Good) => {
                *self = Self {
                    handle: self.handle,
                    last_response: other.last_response,
                    last_request: self.last_request,
                    last_local_request: self.last_local_request,
                    refresh_requests: 0,
                };
            }
            (NodeStatus::Good, NodeStatus::Questionable) => {}
            (NodeStatus::Good, NodeStatus::Bad) => {}
            (NodeStatus::Questionable, NodeStatus::Good) => {
                *self = other;
            }
            (NodeStatus::Questionable, NodeStatus::Questionable) => {}
            (NodeStatus::Questionable, NodeStatus::Bad) => {}
            (NodeStatus::Bad, NodeStatus::Good) => {
                *self = other;
            }
            (NodeStatus::Bad, NodeStatus::Questionable) => {
                *self = other;
            }
            (NodeStatus::Bad, NodeStatus::Bad) => {}
        }
    }
//@end

//@begin fn src/node.rs impl:Node local_request props=C10
    pub fn local_request(&mut self)
        ensures final(self).handle == old(self).handle,
           final(self).abs() == f_local_request(old(self).abs(), clock()), // @C10.unanswered_counter
           final(self).last_response == old(self).last_response, final(self).last_request == old(self).last_request,
           old(self).wf() ==> final(self).wf(),
           real(*old(self)) == real(*final(self)),
    {
        self.last_local_request = Some(Instant::now());

        if self.status() != NodeStatus::Good {
            self.refresh_requests = self.refresh_requests.saturating_add(1);
        }
    }
//@end

//@begin fn src/node.rs impl:Node remote_request props=C10
    pub fn remote_request(&mut self)
        ensures final(self).handle == old(self).handle,
           final(self).abs() == f_remote_request(old(self).abs(), clock()), // @C10.query_received_recorded
           final(self).last_response == old(self).last_response, final(self).refresh_requests == old(self).refresh_requests,
           final(self).last_local_request == old(self).last_local_request,
           old(self).wf() ==> final(self).wf(),
    {
        self.last_request = Some(Instant::now());
    }
//@end

//@begin fn src/node.rs impl:Node recently_requested_from props=C10
    pub fn recently_requested_from(&self) -> (r: bool)
        ensures r == (self.last_local_request is Some && clock() < inst_nanos(self.last_local_request->0) + 30_000_000_000),
    {
        broadcast use instant_ord_ax, inst_add_ax;
        if let Some(time) = self.last_local_request {
            // TODO: I made the 30 seconds up, seems reasonable.
            Instant::now() < time + Duration::from_secs(30)
        } else {
            false
        }
    }
//@end

//@begin fn src/node.rs impl:Node id
    pub fn id(&self) -> (r: NodeId) ensures r == self.handle.id {
        self.handle.id
    }
//@end

//@begin fn src/node.rs impl:Node addr
    pub fn addr(&self) -> (r: SocketAddr) ensures r == self.handle.addr {
        self.handle.addr
    }
//@end

//@begin fn src/node.rs impl:Node status props=C10,C08
    pub fn status(&self) -> (r: NodeStatus)
        ensures r == self.status_at(clock()), // @C10.status_function
    {
        broadcast use inst_sub_ax, duration_ord_ax;
        let curr_time = Instant::now();

        // Check if node has ever responded to us
        let since_response = match self.last_response {
            Some(response_time) => curr_time - response_time,
            None => return NodeStatus::Bad,
        };

        // Check if node has recently responded to us
        if since_response < Duration::from_secs(MAX_LAST_SEEN_MINS * 60) {
            return NodeStatus::Good;
        }

        // Check if we have request from node multiple times already without response
        if self.refresh_requests >= MAX_REFRESH_REQUESTS {
            return NodeStatus::Bad;
        }

        // Check if the node has recently requested from us
        if let Some(request_time) = self.last_request {
            let since_request = curr_time - request_time;

            if since_request < Duration::from_secs(MAX_LAST_SEEN_MINS * 60) {
                return NodeStatus::Good;
            }
        }

        NodeStatus::Questionable
    }
//@end

//@begin fn src/node.rs impl:Node is_pingable props=C10
    pub fn is_pingable(&self) -> (r: bool)
        ensures r == (self.status_at(clock()) != NodeStatus::Bad), // @C10.bad_not_reported
    {
        // Function is moderately expensive
        let status = self.status();
        status == NodeStatus::Good || status == NodeStatus::Questionable
    }
//@end

//@begin fn src/node.rs impl:Node handle
    pub fn handle(&self) -> (r: &NodeHandle) ensures *r == self.handle {
        &self.handle
    }
//@end
}

impl PartialEqSpecImpl for Node {
    open spec fn obeys_eq_spec() -> bool { true }
    open spec fn eq_spec(&self, other: &Node) -> bool { self.handle.id == other.handle.id && self.handle.addr == other.handle.addr }
}
impl PartialEq<Node> for Node {
//@begin fn src/node.rs impl:PartialEq<Node>@for@Node eq
    fn eq(&self, other: &Node) -> bool {
        self.handle == other.handle
    }
//@end
}

impl NodeHandle {
//@begin fn src/node.rs impl:NodeHandle new
    pub fn new(id: NodeId, addr: SocketAddr) -> (r: Self) ensures r.id == id, r.addr == addr {
        Self { id, addr }
    }
//@end
}

pub open spec fn real(n: Node) -> bool { n.last_response is Some }
pub open spec fn st(n: Node) -> NodeStatus { n.status_at(clock()) }

// ================= C10: history lemmas over the per-contact transition system =================
// The transition functions are exactly the postconditions of the code above (f_update with f_good /
// f_hearsay = Bucket::add_node on a repeat offer; f_remote_request / f_local_request guarded by the
// `status != Bad` filter of RoutingTable::find_node_mut, proved below in this unit).
pub enum Ev { Answer, Hearsay, QueryRecv, QuerySent }
pub open spec fn step(f: F, e: Ev, t: int) -> F {
    match e {
        Ev::Answer => f_update(f, f_good(t), t),
        Ev::Hearsay => f_update(f, f_hearsay(t), t),
        Ev::QueryRecv => if f_status(f, t) is Bad { f } else { f_remote_request(f, t) },
        Ev::QuerySent => if f_status(f, t) is Bad { f } else { f_local_request(f, t) },
    }
}
// ghost summary of the history: time of the last accepted answer / last accepted incoming query
pub struct G { pub la: Option<int>, pub lqr: Option<int> }
pub open spec fn gstep(f: F, g: G, e: Ev, t: int) -> G {
    match e {
        Ev::Answer => G { la: Some(t), lqr: if f_status(f, t) is Good { g.lqr } else { None } },
        Ev::Hearsay => if f_status(f, t) is Bad { G { la: None, lqr: None } } else { g },
        Ev::QueryRecv => if f_status(f, t) is Bad { g } else { G { lqr: Some(t), ..g } },
        Ev::QuerySent => g,
    }
}
pub open spec fn hinv(f: F, g: G, now: int) -> bool {
    &&& (f.lr is Some ==> g.la == f.lr || (g.la is None && f.lr->0 + Q15() <= now))
    &&& (f.lr is None ==> g.la is None)
    &&& f.lq == g.lqr
    &&& (g.la is Some ==> g.la->0 <= now) && (g.lqr is Some ==> g.lqr->0 <= now)
}
//@props C10
pub proof fn lemma_hinv_init_answer(t: int) ensures hinv(f_good(t), G { la: Some(t), lqr: None }, t) {}
//@props C10
pub proof fn lemma_hinv_init_hearsay(t: int) ensures hinv(f_hearsay(t), G { la: None, lqr: None }, t) {}
//@props C10
pub proof fn lemma_hinv_step(f: F, g: G, e: Ev, now: int, t: int)
    requires hinv(f, g, now), now <= t
    ensures hinv(step(f, e, t), gstep(f, g, e, t), t)
{}
//@props C10
pub proof fn lemma_hinv_time(f: F, g: G, now: int, t: int)
    requires hinv(f, g, now), now <= t
    ensures hinv(f, g, t)
{}
// (a) reported good only if it answered, or (being known) queried us, within the last 15 minutes
//@props C10
pub proof fn lemma_good_only_if(f: F, g: G, now: int)
    requires hinv(f, g, now), f_status(f, now) is Good
    ensures (g.la is Some && now - g.la->0 < Q15()) || (g.lqr is Some && now - g.lqr->0 < Q15()) // @C10.good_only_if_recent
{}
// (b) neither for 15 minutes ==> not reported good
//@props C10
pub proof fn lemma_stale_not_good(f: F, g: G, now: int)
    requires hinv(f, g, now), g.la is None || now - g.la->0 >= Q15(), g.lqr is None || now - g.lqr->0 >= Q15()
    ensures !(f_status(f, now) is Good) // @C10.stale_not_good
{}
// (c) hearsay-only contacts are questionable at every later instant until another event
//@props C10,C12
pub proof fn lemma_hearsay_questionable(h: int, t: int)
    requires h <= t
    ensures f_status(f_hearsay(h), t) is Questionable // @C10.hearsay_questionable
{}
// (d) not good + two consecutive unanswered queries ==> bad; bad is stable under time, queries sent and received
//@props C10
pub proof fn lemma_two_unanswered(f: F, t1: int, t2: int, t3: int)
    requires t1 <= t2 <= t3, !(f_status(f, t1) is Good), !(f_status(step(f, Ev::QuerySent, t1), t2) is Good)
    ensures f_status(step(step(f, Ev::QuerySent, t1), Ev::QuerySent, t2), t3) is Bad // @C10.two_unanswered_bad
{}
//@props C10
pub proof fn lemma_bad_stable(f: F, e: Ev, t: int, t2: int)
    requires f_status(f, t) is Bad, t <= t2, e is QuerySent || e is QueryRecv
    ensures f_status(step(f, e, t), t2) is Bad, f_status(f, t2) is Bad // @C10.bad_stable
{}
// (e) any accepted answer makes it good immediately (and for the next 15 minutes)
//@props C10
pub proof fn lemma_answer_good(f: F, t: int, t2: int)
    requires t <= t2 < t + Q15()
    ensures f_status(step(f, Ev::Answer, t), t2) is Good // @C10.answer_good_immediately
{}
// the only other way out of Bad: being named again re-admits the contact as a *fresh* questionable entry
//@props C10
pub proof fn lemma_bad_hearsay(f: F, t: int)
    requires f_status(f, t) is Bad
    ensures f_status(step(f, Ev::Hearsay, t), t) is Questionable, step(f, Ev::Hearsay, t).rr == 0
{}
// a hearsay mention never promotes a record to good, and never touches a live record
//@props C10,C12
pub proof fn lemma_hearsay_never_good(f: F, t: int)
    ensures f_status(step(f, Ev::Hearsay, t), t) is Good ==> f_status(f, t) is Good, // @C12.hearsay_never_good
        !(f_status(f, t) is Bad) ==> step(f, Ev::Hearsay, t) == f,
{}
// "at all times" from "after every operation": Good can only decay, Bad (by counter) never heals, with time alone
//@props C10,C08
pub proof fn lemma_time_monotone(f: F, t: int, t2: int)
    requires t <= t2
    ensures rank(f_status(f, t2)) <= rank(f_status(f, t)) // @C10.time_only_decays
{}

} // verus!
fn main() {}
