//@include prelude/head.rs
//@include prelude/time.rs
//@include prelude/net.rs
//@include prelude/helpers.rs

//@include inc/info_hash_types.rs

// ================= node.rs =================
//@begin const src/node.rs - MAX_LAST_SEEN_MINS
pub const MAX_LAST_SEEN_MINS: u64 = 15;
//@end
//@begin const src/node.rs - MAX_REFRESH_REQUESTS
pub const MAX_REFRESH_REQUESTS: usize = 2;
//@end

//@begin type src/node.rs - enum NodeStatus
#[derive(Structural, Copy, Clone, PartialEq, Eq, PartialOrd, Ord)]
pub enum NodeStatus {
    Bad,
    Questionable,
    Good,
}
//@end

pub open spec fn rank(s: NodeStatus) -> int { match s { NodeStatus::Bad => 0, NodeStatus::Questionable => 1, NodeStatus::Good => 2 } }
// TRUSTED: derived PartialOrd on a field-less enum orders variants by declaration order (Rust reference)
pub broadcast axiom fn node_status_ord_ax(a: NodeStatus, b: NodeStatus)
    ensures <NodeStatus as PartialOrdSpec<NodeStatus>>::obeys_partial_cmp_spec(),
       #[trigger] a.partial_cmp_spec(&b) == Some(cmp_int(rank(a), rank(b)));

//@begin type src/node.rs - struct Node
pub struct Node {
    pub handle: NodeHandle,
    pub last_request: Option<Instant>,
    pub last_response: Option<Instant>,
    pub last_local_request: Option<Instant>,
    pub refresh_requests: usize,
}
//@end
// TRUSTED: derived Clone on a struct of value-semantic fields is field-wise
impl Clone for Node {
    #[verifier::external_body]
    fn clone(&self) -> (r: Node) ensures r == *self { unimplemented!() }
}

//@include inc/node_handle.rs

// ---------- abstract record: what the status of a contact depends on (nanoseconds on the node's clock) ----------
pub struct F { pub lr: Option<int>, pub lq: Option<int>, pub rr: nat }
/// 15 minutes in nanoseconds -- written from BEP5 ("15 minutes"), not from the code
pub open spec fn Q15() -> int { 900_000_000_000int }
/// BEP5 standing of a record at time t -- written from the property statement
pub open spec fn f_status(f: F, t: int) -> NodeStatus {
    match f.lr {
        None => NodeStatus::Bad,
        Some(r) => if t - r < Q15() { NodeStatus::Good }
           else if f.rr >= 2 { NodeStatus::Bad }
           else if f.lq is Some && t - f.lq->0 < Q15() { NodeStatus::Good }
           else { NodeStatus::Questionable }
    }
}
pub open spec fn on(o: Option<Instant>) -> Option<int> { match o { Some(i) => Some(inst_nanos(i)), None => None } }
pub open spec fn f_good(t: int) -> F { F { lr: Some(t), lq: None, rr: 0 } }
pub open spec fn f_hearsay(t: int) -> F { F { lr: Some(t - Q15()), lq: None, rr: 0 } }
pub open spec fn f_update(f: F, o: F, t: int) -> F {
    match (f_status(f, t), f_status(o, t)) {
        (NodeStatus::Good, NodeStatus::Good) => F { lr: o.lr, lq: f.lq, rr: 0 },
        (NodeStatus::Questionable, NodeStatus::Good) => o,
        (NodeStatus::Bad, NodeStatus::Good) => o,
        (NodeStatus::Bad, NodeStatus::Questionable) => o,
        _ => f,
    }
}
pub open spec fn f_local_request(f: F, t: int) -> F {
    if f_status(f, t) != NodeStatus::Good && f.rr < usize::MAX { F { rr: f.rr + 1, ..f } } else { f }
}
pub open spec fn f_remote_request(f: F, t: int) -> F { F { lq: Some(t), ..f } }

impl Node {
    pub open spec fn abs(&self) -> F { F { lr: on(self.last_response), lq: on(self.last_request), rr: self.refresh_requests as nat } }
    pub open spec fn status_at(&self, now: int) -> NodeStatus { f_status(self.abs(), now) }
    /// type invariant of records built by this crate: no timestamp lies in the future
    pub open spec fn wf(&self) -> bool {
        (self.last_response is Some ==> inst_nanos(self.last_response->0) <= clock())
        && (self.last_request is Some ==> inst_nanos(self.last_request->0) <= clock())
    }
    pub open spec fn update_spec(self, other: Node) -> Node {
        match (self.status_at(clock()), other.status_at(clock())) {
            (NodeStatus::Good, NodeStatus::Good) => Node { handle: self.handle, last_response: other.last_response, last_request: self.last_request, last_local_request: self.last_local_request, refresh_requests: 0 },
            (NodeStatus::Questionable, NodeStatus::Good) => other,
            (NodeStatus::Bad, NodeStatus::Good) => other,
            (NodeStatus::Bad, NodeStatus::Questionable) => other,
            _ => self,
        }
    }

//@begin fn src/node.rs impl:Node as_good props=C10,C12,C08
    pub fn as_good(id: NodeId, addr: SocketAddr) -> (r: Node)
        ensures r.handle.id == id, r.handle.addr == addr, r.wf(),
            r.abs() == f_good(clock()), // @C10.answer_record
            r.status_at(clock()) == NodeStatus::Good, // @C10.answer_good_immediately
    {
        Node {
            handle: NodeHandle { id, addr },
            last_response: Some(Instant::now()),
            last_request: None,
            last_local_request: None,
            refresh_requests: 0,
        }
    }
//@end

//@begin fn src/node.rs impl:Node as_questionable props=C10,C12,C08
    pub fn as_questionable(id: NodeId, addr: SocketAddr) -> (r: Node)
        ensures r.handle.id == id, r.handle.addr == addr, r.wf(),
            r.abs() == f_hearsay(clock()), // @C10.hearsay_record
            r.status_at(clock()) == NodeStatus::Questionable, // @C12.hearsay_admitted_questionable
    {
        let last_response_offset = Duration::from_secs(MAX_LAST_SEEN_MINS * 60);
        let last_response = Instant::now().checked_sub(last_response_offset).unwrap();

        Node {
            handle: NodeHandle { id, addr },
            last_response: Some(last_response),
            last_request: None,
            last_local_request: None,
            refresh_requests: 0,
        }
    }
//@end

//@begin fn src/node.rs impl:Node as_bad props=C10,C08
    pub fn as_bad(id: NodeId, addr: SocketAddr) -> (r: Node)
        ensures r.handle.id == id, r.handle.addr == addr, r.wf(),
            r.last_response is None,
            r == (Node { handle: NodeHandle { id, addr }, last_request: None, last_response: None, last_local_request: None, refresh_requests: 0 }),
            r.status_at(clock()) == NodeStatus::Bad, // @C10.never_answered_is_bad
    {
        Node {
            handle: NodeHandle { id, addr },
            last_response: None,
            last_request: None,
            last_local_request: None,
            refresh_requests: 0,
        }
    }
//@end

//@begin fn src/node.rs impl:Node update props=C10,C08
    pub fn update(&mut self, other: Node)
        requires old(self).handle == other.handle, old(self).wf(), other.wf(),
            other.last_request is None || old(self).status_at(clock()) != NodeStatus::Good,
        ensures final(self).handle == old(self).handle, final(self).wf(),
            *final(self) == old(self).update_spec(other), // @C10.update_exact
            rank(final(self).status_at(clock())) >= rank(other.status_at(clock())), // @C08.repeat_offer_is_admitted
            final(self).abs() == f_update(old(self).abs(), other.abs(), clock()), // @C10.update_transition
            real(*old(self)) ==> real(*final(self)),
            rank(final(self).status_at(clock())) >= rank(old(self).status_at(clock())), // @C08.update_never_downgrades
            other.status_at(clock()) == NodeStatus::Good ==> final(self).status_at(clock()) == NodeStatus::Good, // @C10.answer_good_immediately
    {
        vx_assert(self.handle == other.handle);

        let self_status = self.status();
        let other_status = other.status();

        match (self_status, other_status) {
            (NodeStatus::Good, NodeStatus::Good) => {
                *self = Self {
                    handle: self.handle,
                    last_response: other.last_response,
                    last_request: self.last_request,
                    last_local_request: self.last_local_request,
                    refresh_requests: 0,
                };
            }
            (NodeStatus::Good, NodeStatus::Questionable) => {}
            (NodeStatus::Good, NodeStatus::Bad) => {}
            (NodeStatus::Questionable, NodeStatus::Good) => {
                *self = other;
            }
            (NodeStatus::Questionable, NodeStatus::Questionable) => {}
            (NodeStatus::Questionable, NodeStatus::Bad) => {}
            (NodeStatus::Bad, NodeStatus::Good) => {
                *self = other;
            }
            (NodeStatus::Bad, NodeStatus::Questionable) => {
                *self = other;
            }
            (NodeStatus::Bad, NodeStatus::Bad) => {}
        }
    }
//@end

//@begin fn src/node.rs impl:Node local_request props=C10,C11
    pub fn local_request(&mut self)
        ensures final(self).handle == old(self).handle,
           final(self).abs() == f_local_request(old(self).abs(), clock()), // @C10.unanswered_counter @C11.every_query_sent_to_a_stale_node_is_counted
           final(self).last_response == old(self).last_response, final(self).last_request == old(self).last_request,
           old(self).wf() ==> final(self).wf(),
           real(*old(self)) == real(*final(self)),
    {
        self.last_local_request = Some(Instant::now());

        if self.status() != NodeStatus::Good {
            self.refresh_requests = self.refresh_requests.saturating_add(1);
        }
    }
//@end

//@begin fn src/node.rs impl:Node remote_request props=C10
    pub fn remote_request(&mut self)
        ensures final(self).handle == old(self).handle,
           final(self).abs() == f_remote_request(old(self).abs(), clock()), // @C10.query_received_recorded
           final(self).last_response == old(self).last_response, final(self).refresh_requests == old(self).refresh_requests,
           final(self).last_local_request == old(self).last_local_request,
           old(self).wf() ==> final(self).wf(),
    {
        self.last_request = Some(Instant::now());
    }
//@end

//@begin fn src/node.rs impl:Node recently_requested_from props=C10
    pub fn recently_requested_from(&self) -> (r: bool)
        ensures r == (self.last_local_request is Some && clock() < inst_nanos(self.last_local_request->0) + 30_000_000_000),
    {
        broadcast use instant_ord_ax, inst_add_ax;
        if let Some(time) = self.last_local_request {
            // TODO: I made the 30 seconds up, seems reasonable.
            Instant::now() < time + Duration::from_secs(30)
        } else {
            false
        }
    }
//@end

//@begin fn src/node.rs impl:Node id
    pub fn id(&self) -> (r: NodeId) ensures r == self.handle.id {
        self.handle.id
    }
//@end

//@begin fn src/node.rs impl:Node addr
    pub fn addr(&self) -> (r: SocketAddr) ensures r == self.handle.addr {
        self.handle.addr
    }
//@end

//@begin fn src/node.rs impl:Node status props=C10,C08,C11
    pub fn status(&self) -> (r: NodeStatus)
        ensures r == self.status_at(clock()), // @C10.status_function @C11.two_unanswered_queries_make_a_stale_node_bad
    {
        broadcast use inst_sub_ax, duration_ord_ax;
        let curr_time = Instant::now();

        // Check if node has ever responded to us
        let since_response = match self.last_response {
            Some(response_time) => curr_time - response_time,
            None => return NodeStatus::Bad,
        };

        // Check if node has recently responded to us
        if since_response < Duration::from_secs(MAX_LAST_SEEN_MINS * 60) {
            return NodeStatus::Good;
        }

        // Check if we have request from node multiple times already without response
        if self.refresh_requests >= MAX_REFRESH_REQUESTS {
            return NodeStatus::Bad;
        }

        // Check if the node has recently requested from us
        if let Some(request_time) = self.last_request {
            let since_request = curr_time - request_time;

            if since_request < Duration::from_secs(MAX_LAST_SEEN_MINS * 60) {
                return NodeStatus::Good;
            }
        }

        NodeStatus::Questionable
    }
//@end

//@begin fn src/node.rs impl:Node is_pingable props=C10
    pub fn is_pingable(&self) -> (r: bool)
        ensures r == (self.status_at(clock()) != NodeStatus::Bad), // @C10.bad_not_reported
    {
        // Function is moderately expensive
        let status = self.status();
        status == NodeStatus::Good || status == NodeStatus::Questionable
    }
//@end

//@begin fn src/node.rs impl:Node handle
    pub fn handle(&self) -> (r: &NodeHandle) ensures *r == self.handle {
        &self.handle
    }
//@end
}

impl PartialEqSpecImpl for Node {
    open spec fn obeys_eq_spec() -> bool { true }
    open spec fn eq_spec(&self, other: &Node) -> bool { self.handle.id == other.handle.id && self.handle.addr == other.handle.addr }
}
impl PartialEq<Node> for Node {
//@begin fn src/node.rs impl:PartialEq<Node>@for@Node eq
    fn eq(&self, other: &Node) -> bool {
        self.handle == other.handle
    }
//@end
}


pub open spec fn real(n: Node) -> bool { n.last_response is Some }
pub open spec fn st(n: Node) -> NodeStatus { n.status_at(clock()) }


// ================= bucket.rs =================
//@begin const src/bucket.rs - MAX_BUCKET_SIZE
pub const MAX_BUCKET_SIZE: usize = 8;
//@end
//@begin type src/bucket.rs - struct Bucket
pub struct Bucket {
    pub nodes: [Node; MAX_BUCKET_SIZE],
}
//@end
pub open spec fn same_handle(a: Node, b: Node) -> bool { a.handle.id == b.handle.id && a.handle.addr == b.handle.addr }
pub open spec fn unchanged_except(a: [Node; 8], b: [Node; 8], k: int) -> bool {
    0 <= k < 8 && forall|j: int| 0 <= j < 8 && j != k ==> #[trigger] b[j] == a[j]
}
pub open spec fn first(b: Seq<Node>, p: spec_fn(Node) -> bool, i: int) -> int
    decreases 8 - i
{
    if i >= 8 || i < 0 || b.len() != 8 { 8 } else if p(b[i]) { i } else { first(b, p, i + 1) }
}
pub proof fn lemma_first(b: Seq<Node>, p: spec_fn(Node) -> bool, i: int)
    requires 0 <= i <= 8, b.len() == 8
    ensures i <= first(b, p, i) <= 8, first(b, p, i) < 8 ==> p(b[first(b, p, i)]),
        forall|j: int| i <= j < first(b, p, i) ==> !p(#[trigger] b[j])
    decreases 8 - i
{
    if i < 8 && !p(b[i]) { lemma_first(b, p, i + 1); }
}
pub proof fn lemma_first_is(b: Seq<Node>, p: spec_fn(Node) -> bool, i: int, k: int)
    requires b.len() == 8, 0 <= i <= k <= 8, forall|j: int| 0 <= j < k ==> !p(#[trigger] b[j]), k < 8 ==> p(b[k])
    ensures first(b, p, i) == k
    decreases k - i
{
    if i < k { lemma_first_is(b, p, i + 1, k); }
}
pub open spec fn p_same(n: Node) -> spec_fn(Node) -> bool { |x: Node| same_handle(x, n) }
pub open spec fn p_bad() -> spec_fn(Node) -> bool { |x: Node| st(x) == NodeStatus::Bad }
pub open spec fn p_lower(s: NodeStatus) -> spec_fn(Node) -> bool { |x: Node| rank(st(x)) < rank(s) }

// the bucket after `add_node` as a function of the bucket before (repaired semantics: a Bad slot is preferred)
pub open spec fn bucket_add_spec(b: Seq<Node>, n: Node) -> (Seq<Node>, bool) {
    if st(n) == NodeStatus::Bad { (b, true) } else {
        let s = first(b, p_same(n), 0);
        if s < 8 { (b.update(s, b[s].update_spec(n)), true) } else {
            let d = first(b, p_bad(), 0);
            if d < 8 { (b.update(d, n), true) } else {
                let q = first(b, p_lower(st(n)), 0);
                if q < 8 { (b.update(q, n), true) } else { (b, false) }
            }
        }
    }
}
impl Bucket {
    pub open spec fn wf(&self) -> bool { forall|i: int| 0 <= i < 8 ==> (#[trigger] self.nodes[i]).wf() }

//@begin fn src/bucket.rs impl:Bucket pingable_nodes props=C10
    pub fn pingable_nodes(&self) -> impl Iterator<Item = &Node> {
        self.nodes.iter().filter(|node: &&Node| -> (b: bool)
            ensures b == (st(**node) != NodeStatus::Bad), // @C10.bad_not_reported
            { node.is_pingable() })
    }
//@end

//@begin fn src/bucket.rs impl:Bucket pingable_nodes_mut props=C10
    pub fn pingable_nodes_mut(&mut self) -> impl Iterator<Item = &mut Node> {
        self.nodes.iter_mut().filter(|node: &&mut Node| -> (b: bool)
            ensures b == (st(*old(*node)) != NodeStatus::Bad), // @C10.queries_marked_on_live_nodes_only
            { node.is_pingable() })
    }
//@end

//@begin fn src/bucket.rs impl:Bucket add_node props=C08,C10
    pub fn add_node(&mut self, new_node: Node) -> (r: bool)
        requires new_node.wf(), old(self).wf(),
            new_node.last_request is None || forall|i: int| 0 <= i < 8 && same_handle(#[trigger] old(self).nodes[i], new_node) ==> st(old(self).nodes[i]) != NodeStatus::Good,
        ensures final(self).wf(),
            (final(self).nodes@, r) == bucket_add_spec(old(self).nodes@, new_node), // @carrier.bucket_add_functional_spec
            // C10: an answer or a mention of a contact that is already listed reaches its record (Node::update), whatever its standing
            st(new_node) != NodeStatus::Bad ==> forall|i: int| 0 <= i < 8 && i == first(old(self).nodes@, p_same(new_node), 0)
                ==> #[trigger] final(self).nodes@[i] == old(self).nodes@[i].update_spec(new_node), // @C10.repeat_offer_reaches_the_record
            old(self).nodup() ==> final(self).nodup(), // @C08.no_duplicate_handle
            forall|j: int| 0 <= j < 8 && real(#[trigger] final(self).nodes[j]) ==> (real(old(self).nodes[j]) && same_handle(final(self).nodes[j], old(self).nodes[j])) || same_handle(final(self).nodes[j], new_node),
            forall|j: int| 0 <= j < 8 ==> #[trigger] final(self).nodes[j] == old(self).nodes[j] || (same_handle(final(self).nodes[j], new_node) && real(new_node)),
            forall|j: int| 0 <= j < 8 && real(#[trigger] old(self).nodes[j]) ==> real(final(self).nodes[j]) && same_handle(final(self).nodes[j], old(self).nodes[j]) || same_handle(final(self).nodes[j], new_node),
            // at most one slot changes
            exists|k: int| #[trigger] unchanged_except(old(self).nodes, final(self).nodes, k), // @C08.at_most_one_slot_changes
            st(new_node) == NodeStatus::Bad ==> r && final(self).nodes == old(self).nodes, // @C08.bad_offer_ignored
            // repeat offer: updated in place, never duplicated
            st(new_node) != NodeStatus::Bad && (exists|i: int| 0 <= i < 8 && same_handle(#[trigger] old(self).nodes[i], new_node)) ==> r
                && forall|j: int| 0 <= j < 8 && final(self).nodes[j] != #[trigger] old(self).nodes[j] ==> same_handle(old(self).nodes[j], new_node)
                       && same_handle(final(self).nodes[j], new_node) && rank(st(final(self).nodes[j])) >= rank(st(old(self).nodes[j])), // @C08.repeat_offer_updated_in_place
            // newcomer: victim has strictly lower standing, and is Bad whenever a Bad slot exists
            st(new_node) != NodeStatus::Bad && !(exists|i: int| 0 <= i < 8 && same_handle(#[trigger] old(self).nodes[i], new_node)) ==>
                (r <==> exists|i: int| 0 <= i < 8 && rank(st(#[trigger] old(self).nodes[i])) < rank(st(new_node)))
                && (r ==> exists|k: int| #[trigger] unchanged_except(old(self).nodes, final(self).nodes, k) && final(self).nodes[k] == new_node
                          && rank(st(old(self).nodes[k])) < rank(st(new_node))
                          && ((exists|i: int| 0 <= i < 8 && st(#[trigger] old(self).nodes[i]) == NodeStatus::Bad) ==> st(old(self).nodes[k]) == NodeStatus::Bad
                                && forall|j: int| 0 <= j < k ==> st(#[trigger] old(self).nodes[j]) != NodeStatus::Bad))
                && (!r ==> final(self).nodes == old(self).nodes), // @C08.victim_strictly_lower_and_bad_slot_first
    {
        broadcast use node_status_ord_ax;
        let new_node_status = new_node.status();
        if new_node_status == NodeStatus::Bad {
            assert(unchanged_except(old(self).nodes, self.nodes, 0));
            return true;
        }
        let ghost b0 = old(self).nodes@;

        // See if this node is already in the table, in that case replace it if it
        // has a higher or equal status to the current node.
        if let Some(index) = vx_position(&self.nodes, |node: &Node| -> (b: bool) ensures b == same_handle(*node, new_node) { *node == new_node }) {
            // Note, we can't just compare the status and if it's better or equal then replace the
            // old node with the new one. Doing so would erase information already stored locally.
            self.nodes[index].update(new_node);
            proof {
                lemma_first_is(b0, p_same(new_node), 0, index as int);
                assert(self.nodes@ =~= b0.update(index as int, b0[index as int].update_spec(new_node)));
                assert(unchanged_except(old(self).nodes, self.nodes, index as int));
                assert(same_handle(old(self).nodes[index as int], new_node));
            }

            return true;
        }

        // See if any lower priority nodes are present in the table, we cant do
        // nodes that have equal status because we have to prefer longer lasting
        // nodes in the case of a good status which helps with stability.
        let replace_index = match vx_position(&self.nodes, |node: &Node| -> (b: bool) ensures b == (st(*node) == NodeStatus::Bad) { node.status() == NodeStatus::Bad }) {
            Some(index) => Some(index),
            None => vx_position(&self
                .nodes
                , |node: &Node| -> (b: bool) ensures b == (rank(st(*node)) < rank(new_node_status)) { node.status() < new_node_status }),
        };
        proof {
            lemma_first_is(b0, p_same(new_node), 0, 8);
        }
        if let Some(index) = replace_index {
            self.nodes[index] = new_node;
            proof {
                if exists|i: int| 0 <= i < 8 && st(#[trigger] b0[i]) == NodeStatus::Bad {
                    lemma_first_is(b0, p_bad(), 0, index as int);
                } else {
                    lemma_first_is(b0, p_bad(), 0, 8);
                    lemma_first_is(b0, p_lower(st(new_node)), 0, index as int);
                }
                assert(self.nodes@ =~= b0.update(index as int, new_node));
                assert(unchanged_except(old(self).nodes, self.nodes, index as int));
                assert(rank(st(old(self).nodes[index as int])) < rank(st(new_node)));
            }

            true
        } else {
            proof {
                assert(unchanged_except(old(self).nodes, self.nodes, 0));
                lemma_first_is(b0, p_bad(), 0, 8);
                lemma_first_is(b0, p_lower(st(new_node)), 0, 8);
            }
            false
        }
    }
//@end
}

// ================= table.rs =================
//@begin const src/table.rs - MAX_BUCKETS
pub const MAX_BUCKETS: usize = INFO_HASH_LEN * 8;
//@end
pub uninterp spec fn lbc(a: NodeId, b: NodeId) -> nat;
// proved-by: kx/lz_bounds
pub broadcast axiom fn lbc_ax(a: NodeId, b: NodeId)
    ensures #[trigger] lbc(a, b) <= 160, (lbc(a, b) == 160) == (a == b);

#[verifier::external_body]
pub fn leading_bit_count(local_node: NodeId, remote_node: NodeId) -> (r: usize)
    ensures r == lbc(local_node, remote_node)
{ unimplemented!() }

// the placeholder `Bucket::new` fills every slot with (Node::as_bad of id 0 / 127.0.0.1:0)
// TRUSTED: std::net constructors are uninterpreted functions of their arguments
pub uninterp spec fn ipv4_of(a: u8, b: u8, c: u8, d: u8) -> Ipv4Addr;
pub uninterp spec fn sockv4_of(ip: Ipv4Addr, port: u16) -> SocketAddrV4;
pub assume_specification[ Ipv4Addr::new ](a: u8, b: u8, c: u8, d: u8) -> (r: Ipv4Addr) ensures r == ipv4_of(a, b, c, d);
pub assume_specification[ SocketAddrV4::new ](ip: Ipv4Addr, port: u16) -> (r: SocketAddrV4) ensures r == sockv4_of(ip, port);
#[verifier::external_type_specification]
#[verifier::external_body]
pub struct ExIpv4Addr(Ipv4Addr);
pub open spec fn all_zero(a: [u8; 20]) -> bool { forall|i: int| 0 <= i < 20 ==> #[trigger] a[i] == 0u8 }
pub open spec fn zero_id() -> InfoHash { InfoHash(choose|a: [u8; 20]| all_zero(a)) }
/// the never-answered placeholder (id 0 at 127.0.0.1:0) with which Bucket::new fills every slot
pub open spec fn filler() -> Node {
    Node { handle: NodeHandle { id: zero_id(), addr: SocketAddr::V4(sockv4_of(ipv4_of(127, 0, 0, 1), 0)) },
           last_request: None, last_response: None, last_local_request: None, refresh_requests: 0 }
}
pub broadcast proof fn filler_ax() ensures #[trigger] filler().last_response is None, filler().wf() {}
pub open spec fn live(n: Node) -> bool { st(n) != NodeStatus::Bad }

// a bucket that received `cnt` live nodes since it was created: they sit in front, placeholders behind
pub open spec fn shaped(b: Seq<Node>, cnt: int) -> bool {
    b.len() == 8 && 0 <= cnt <= 8
    && (forall|k: int| 0 <= k < cnt ==> live(#[trigger] b[k]))
    && (forall|k: int| cnt <= k < 8 ==> #[trigger] b[k] == filler())
}
pub proof fn lemma_add_to_shaped(b: Seq<Node>, cnt: int, x: Node)
    requires shaped(b, cnt), cnt < 8, live(x), forall|k: int| 0 <= k < cnt ==> !same_handle(#[trigger] b[k], x)
    ensures bucket_add_spec(b, x) == (b.update(cnt, x), true), shaped(b.update(cnt, x), cnt + 1)
{
    broadcast use filler_ax;
    assert(st(filler()) == NodeStatus::Bad);
    if same_handle(filler(), x) {
        lemma_first_is(b, p_same(x), 0, cnt);
        assert(b[cnt].update_spec(x) == x);
    } else {
        assert forall|j: int| 0 <= j < 8 implies !p_same(x)(#[trigger] b[j]) by { if j >= cnt { assert(b[j] == filler()); } }
        lemma_first_is(b, p_same(x), 0, 8);
        lemma_first_is(b, p_bad(), 0, cnt);
    }
}

//@begin const src/info_hash.rs - NODE_ID_LEN
pub const NODE_ID_LEN: usize = INFO_HASH_LEN;
//@end
impl vstd::std_specs::convert::FromSpecImpl<[u8; INFO_HASH_LEN]> for InfoHash {
    open spec fn obeys_from_spec() -> bool { true }
    open spec fn from_spec(hash: [u8; INFO_HASH_LEN]) -> InfoHash { InfoHash(hash) }
}
impl From<[u8; INFO_HASH_LEN]> for InfoHash {
//@begin fn src/info_hash.rs impl:From<[u8;INFO_HASH_LEN]>@for@InfoHash from
    fn from(hash: [u8; INFO_HASH_LEN]) -> (r: InfoHash) ensures r == InfoHash(hash) {
        Self(hash)
    }
//@end
}
impl Bucket {
//@begin fn src/bucket.rs impl:Bucket new props=C08
    pub fn new() -> (b: Bucket)
        ensures b.wf(), forall|i: int| 0 <= i < 8 ==> #[trigger] b.nodes[i] == filler(), // @C08.new_bucket_is_empty
    {
        let id = NodeId::from([0u8; NODE_ID_LEN]);
        proof {
            let z = [0u8; NODE_ID_LEN];
            let c = choose|a: [u8; 20]| all_zero(a);
            assert(all_zero(z));
            assert(z =~= c);
            assert(id == zero_id());
        }

        let ip = Ipv4Addr::new(127, 0, 0, 1);
        let addr = SocketAddr::V4(SocketAddrV4::new(ip, 0));

        Bucket {
            nodes: [
                Node::as_bad(id, addr),
                Node::as_bad(id, addr),
                Node::as_bad(id, addr),
                Node::as_bad(id, addr),
                Node::as_bad(id, addr),
                Node::as_bad(id, addr),
                Node::as_bad(id, addr),
                Node::as_bad(id, addr),
            ],
        }
    }
//@end


    pub open spec fn nodup(&self) -> bool {
        forall|i: int, j: int| 0 <= i < j < 8 && real(#[trigger] self.nodes[j]) ==> !same_handle(#[trigger] self.nodes[i], self.nodes[j])
    }
}

//@begin type src/table.rs - struct RoutingTable
pub struct RoutingTable {
    pub buckets: Vec<Bucket>,
    pub node_id: NodeId,
    pub routers: HashSet<SocketAddr>,
}
//@end
pub open spec fn placed(t: RoutingTable, i: int, n: Node) -> bool {
    real(n) ==> lbc(t.node_id, n.handle.id) != 160
        && (i < t.buckets.len() - 1 ==> lbc(t.node_id, n.handle.id) == i)
        && (i == t.buckets.len() - 1 ==> lbc(t.node_id, n.handle.id) >= i)
}

pub open spec fn at(t: RoutingTable, i: int, k: int) -> Node { t.buckets[i].nodes[k] }
pub open spec fn slot_is(t: RoutingTable, x: Node, i: int, k: int) -> bool { 0 <= i < t.buckets.len() && 0 <= k < 8 && t.buckets[i].nodes[k] == x }
pub open spec fn present(t: RoutingTable, x: Node) -> bool { exists|i: int, k: int| #[trigger] slot_is(t, x, i, k) }
/// some slot among buckets[0..bi) and the first ni slots of bucket bi holds a record of standing `want` with address `a`
pub open spec fn has_status_upto(t: RoutingTable, want: NodeStatus, a: SocketAddr, bi: int, ni: int) -> bool {
    exists|i: int, k: int| 0 <= i < t.buckets.len() && 0 <= k < 8 && (i < bi || (i == bi && k < ni))
        && st(#[trigger] t.buckets[i].nodes[k]) == want && t.buckets[i].nodes[k].handle.addr == a
}
pub proof fn lemma_upto_step(t: RoutingTable, want: NodeStatus, a: SocketAddr, bi: int, ni: int)
    requires 0 <= bi < t.buckets.len(), 0 <= ni < 8
    ensures has_status_upto(t, want, a, bi, ni + 1) <==> has_status_upto(t, want, a, bi, ni) || (st(t.buckets[bi].nodes[ni]) == want && t.buckets[bi].nodes[ni].handle.addr == a)
{
    if has_status_upto(t, want, a, bi, ni + 1) {
        let (i, k) = choose|i: int, k: int| 0 <= i < t.buckets.len() && 0 <= k < 8 && (i < bi || (i == bi && k < ni + 1))
            && st(#[trigger] t.buckets[i].nodes[k]) == want && t.buckets[i].nodes[k].handle.addr == a;
        if !(i == bi && k == ni) { assert(i < bi || (i == bi && k < ni)); }
    }
    if has_status_upto(t, want, a, bi, ni) {
        let (i, k) = choose|i: int, k: int| 0 <= i < t.buckets.len() && 0 <= k < 8 && (i < bi || (i == bi && k < ni))
            && st(#[trigger] t.buckets[i].nodes[k]) == want && t.buckets[i].nodes[k].handle.addr == a;
        assert(i < bi || (i == bi && k < ni + 1));
    }
}
pub proof fn lemma_upto_row(t: RoutingTable, want: NodeStatus, a: SocketAddr, bi: int)
    requires 0 <= bi < t.buckets.len()
    ensures has_status_upto(t, want, a, bi, 8) <==> has_status_upto(t, want, a, bi + 1, 0)
{
    if has_status_upto(t, want, a, bi, 8) {
        let (i, k) = choose|i: int, k: int| 0 <= i < t.buckets.len() && 0 <= k < 8 && (i < bi || (i == bi && k < 8))
            && st(#[trigger] t.buckets[i].nodes[k]) == want && t.buckets[i].nodes[k].handle.addr == a;
        assert(i < bi + 1 || (i == bi + 1 && k < 0));
    }
    if has_status_upto(t, want, a, bi + 1, 0) {
        let (i, k) = choose|i: int, k: int| 0 <= i < t.buckets.len() && 0 <= k < 8 && (i < bi + 1 || (i == bi + 1 && k < 0))
            && st(#[trigger] t.buckets[i].nodes[k]) == want && t.buckets[i].nodes[k].handle.addr == a;
        assert(i < bi || (i == bi && k < 8));
    }
}
pub open spec fn named(hs: Seq<NodeHandle>, h: NodeHandle) -> bool { exists|j: int| 0 <= j < hs.len() && hs[j] == h }
pub open spec fn placement_spec(num_same_bits: int, num_buckets: int) -> int { if num_same_bits >= num_buckets { num_buckets - 1 } else { num_same_bits } }
// when the target bucket can take the node, `add_node` is exactly the bucket-level function on that bucket and a no-op elsewhere
pub open spec fn no_split_step(o: RoutingTable, f: RoutingTable, node: Node) -> bool {
    let l = lbc(o.node_id, node.handle.id) as int;
    let b = placement_spec(l, o.buckets.len() as int);
    st(node) != NodeStatus::Bad && l != 160 && bucket_add_spec(o.buckets[b].nodes@, node).1 ==>
        f.buckets.len() == o.buckets.len() && f.buckets[b].nodes@ == bucket_add_spec(o.buckets[b].nodes@, node).0
        && (forall|i: int| 0 <= i < o.buckets.len() && i != b ==> #[trigger] f.buckets[i] == o.buckets[i])
}

// C12 / C10 provenance: every slot after an offer is an identical slot of the table before, a placeholder, or carries the offered handle
#[verifier::opaque]
pub open spec fn prov(o: RoutingTable, f: RoutingTable, node: Node) -> bool {
    forall|i: int, k: int| 0 <= i < f.buckets.len() && 0 <= k < 8 ==>
        present(o, #[trigger] f.buckets[i].nodes[k]) || f.buckets[i].nodes[k] == filler() || derived(o, f.buckets[i].nodes[k], node)
}
/// y is the offered node itself, or an existing record of the same handle merged with the offer by Node::update
pub open spec fn derived(o: RoutingTable, y: Node, node: Node) -> bool {
    y == node || exists|i0: int, k0: int| #[trigger] slot_is(o, o.buckets[i0].nodes[k0], i0, k0) && same_handle(o.buckets[i0].nodes[k0], node) && y == o.buckets[i0].nodes[k0].update_spec(node)
}
/// C12: every record reported good in f was already in o (the identical record) or carries the handle of `node` (the responder)
#[verifier::opaque]
pub open spec fn good_from(o: RoutingTable, f: RoutingTable, node: Node) -> bool {
    forall|i: int, k: int| 0 <= i < f.buckets.len() && 0 <= k < 8 && st(#[trigger] f.buckets[i].nodes[k]) == NodeStatus::Good ==>
        present(o, f.buckets[i].nodes[k]) || same_handle(f.buckets[i].nodes[k], node)
}
// a split only moves records: every slot afterwards is an identical slot of the table before, or a placeholder
#[verifier::opaque]
pub open spec fn prov_split(o: RoutingTable, f: RoutingTable) -> bool {
    forall|i: int, k: int| 0 <= i < f.buckets.len() && 0 <= k < 8 ==> present(o, #[trigger] f.buckets[i].nodes[k]) || f.buckets[i].nodes[k] == filler()
}
// C08: a split loses no live node
#[verifier::opaque]
pub open spec fn keeps_live(o: RoutingTable, f: RoutingTable) -> bool {
    forall|i: int, k: int| 0 <= i < o.buckets.len() && 0 <= k < 8 && live(#[trigger] o.buckets[i].nodes[k]) ==> present(f, o.buckets[i].nodes[k])
}
// C08: offering `node` removes at most one other live node `v`, and only one of strictly lower standing
#[verifier::opaque]
pub open spec fn survivors(o: RoutingTable, f: RoutingTable, node: Node, v: Node) -> bool {
    (forall|i: int, k: int| 0 <= i < o.buckets.len() && 0 <= k < 8 && live(#[trigger] o.buckets[i].nodes[k])
        && !same_handle(o.buckets[i].nodes[k], node) && o.buckets[i].nodes[k] != v ==> present(f, o.buckets[i].nodes[k]))
    && (present(o, v) && live(v) && !same_handle(v, node) && !present(f, v) ==> rank(st(v)) < rank(st(node)))
}

impl RoutingTable {
    pub open spec fn wf(&self) -> bool {
        1 <= self.buckets.len() <= 160
        && (forall|i: int| 0 <= i < self.buckets.len() ==> (#[trigger] self.buckets[i]).wf() && self.buckets[i].nodup())
        && (forall|i: int, k: int| 0 <= i < self.buckets.len() && 0 <= k < 8 ==> placed(*self, i, #[trigger] self.buckets[i].nodes[k]))
        && self.routers_ok()
    }
}
impl RoutingTable {
    pub open spec fn absent(&self, node: Node) -> bool {
        forall|i: int, k: int| 0 <= i < self.buckets.len() && 0 <= k < 8 && real(#[trigger] self.buckets[i].nodes[k]) ==> !same_handle(self.buckets[i].nodes[k], node)
    }
    /// fixed router set: no real entry carries a router address (C08: "never lists a router address")
    #[verifier::opaque]
    pub open spec fn routers_ok(&self) -> bool {
        forall|i: int, k: int| 0 <= i < self.buckets.len() && 0 <= k < 8 && real(#[trigger] self.buckets[i].nodes[k]) ==> !self.routers@.contains(self.buckets[i].nodes[k].handle.addr)
    }
    pub open spec fn fresh_or_absent(&self, node: Node) -> bool {
        st(node) == NodeStatus::Bad || node.last_request is None || self.absent(node)
    }
    // frame on the set of real handles: nothing appears except (possibly) `node`
    pub open spec fn only_adds(old_t: RoutingTable, new_t: RoutingTable, node: Node) -> bool {
        forall|m: Node| #[trigger] old_t.absent(m) && !same_handle(m, node) ==> new_t.absent(m)
    }
    pub open spec fn adds_nothing(old_t: RoutingTable, new_t: RoutingTable) -> bool {
        forall|m: Node| #[trigger] old_t.absent(m) ==> new_t.absent(m)
    }

//@begin fn src/table.rs impl:RoutingTable new props=C08
    pub fn new(node_id: NodeId) -> (r: RoutingTable)
        ensures r.wf(), r.node_id == node_id, r.buckets.len() == 1, r.routers@ == Set::<SocketAddr>::empty(),
            forall|m: Node| r.absent(m), // @C08.empty_at_start
    {
        let buckets = vec![Bucket::new()];

        proof {
            broadcast use filler_ax;
            reveal(RoutingTable::routers_ok);
            assert(buckets@.len() == 1);
            assert(forall|k: int| 0 <= k < 8 ==> !real(#[trigger] buckets[0].nodes[k]));
        }
        RoutingTable {
            buckets,
            node_id,
            routers: Default::default(),
        }
    }
//@end

//@begin fn src/table.rs impl:RoutingTable node_id
    pub fn node_id(&self) -> (r: NodeId) ensures r == self.node_id {
        self.node_id
    }
//@end

//@begin fn src/table.rs impl:RoutingTable bucket_index_for_node props=C08,C09,C10,C11,C12
    pub fn bucket_index_for_node(&self, node_id: NodeId) -> (r: usize)
        requires self.buckets.len() >= 1,
        ensures r == placement_spec(lbc(self.node_id, node_id) as int, self.buckets.len() as int), r < self.buckets.len(), // @C08.lookup_uses_placement @C10.a_record_is_looked_up_in_the_bucket_it_was_placed_in @C11.a_record_is_looked_up_in_the_bucket_it_was_placed_in @C12.a_record_is_looked_up_in_the_bucket_it_was_placed_in
    {
        broadcast use lbc_ax;
        let bucket_index = leading_bit_count(self.node_id, node_id);

        // Check the sorted bucket
        if bucket_index < self.buckets.len() {
            // Got the sorted bucket
            bucket_index
        } else {
            // Grab the assorted bucket
            self.buckets
                .len()
                .checked_sub(1)
                .expect("no buckets present in RoutingTable - implementation error")
        }
    }
//@end

//@begin fn src/table.rs impl:RoutingTable add_nodes props=C08,C12
    pub fn add_nodes(&mut self, node: Node, questionable_nodes: &[NodeHandle])
        requires old(self).wf(), node.wf(), old(self).fresh_or_absent(node),
        ensures final(self).wf(), final(self).node_id == old(self).node_id, final(self).routers@ == old(self).routers@,
            final(self).buckets.len() >= old(self).buckets.len(),
            // nothing becomes known except the responder and the handles it named
            forall|m: Node| #[trigger] old(self).absent(m) && !same_handle(m, node) && !named(questionable_nodes@, m.handle) ==> final(self).absent(m), // @C12.only_responder_and_named_admitted
            // nodes merely named in the response are never reported good: a good record was there before, or it is the responder's
            good_from(*old(self), *final(self), node), // @C12.named_nodes_are_never_reported_good
    {
        self.add_node(node);
        proof { lemma_good_from_prov(*old(self), *self, node); }

        // Add the payload nodes as questionable
        for questionable_node in it: questionable_nodes
            invariant self.wf(), self.node_id == old(self).node_id, self.routers@ == old(self).routers@,
                self.buckets.len() >= old(self).buckets.len(),
                forall|m: Node| #[trigger] old(self).absent(m) && !same_handle(m, node) && !named(questionable_nodes@.take(it.index@), m.handle) ==> self.absent(m),
                good_from(*old(self), *self, node),
        {
            let ghost before = *self;
            let ghost k = it.index@;
            self.add_node(Node::as_questionable(
                questionable_node.id,
                questionable_node.addr,
            ));
            proof {
                let hq2 = choose|x: Node| #[trigger] prov(before, *self, x) && st(x) == NodeStatus::Questionable;
                lemma_good_from_step(*old(self), before, *self, node, hq2);
                assert(questionable_nodes@.take(k + 1)[k] == questionable_nodes@[k]);
                assert forall|m: Node| #[trigger] old(self).absent(m) && !same_handle(m, node) && !named(questionable_nodes@.take(k + 1), m.handle) implies self.absent(m) by {
                    assert forall|j: int| 0 <= j < k implies questionable_nodes@.take(k)[j] != m.handle by {
                        assert(questionable_nodes@.take(k + 1)[j] == questionable_nodes@.take(k)[j]);
                    }
                    assert(before.absent(m));
                    assert(questionable_nodes@.take(k + 1)[k] != m.handle);
                }
            }
        }
        proof { assert(questionable_nodes@.take(questionable_nodes@.len() as int) =~= questionable_nodes@); }
    }
//@end

//@begin fn src/table.rs impl:RoutingTable load_contacts props=C10
    pub fn load_contacts(&self) -> (r: (HashSet<SocketAddr>, HashSet<SocketAddr>))
        ensures
            forall|a: SocketAddr| r.0@.contains(a) <==> has_status_upto(*self, NodeStatus::Good, a, self.buckets.len() as int, 0), // @C10.contacts_good_exact
            forall|a: SocketAddr| r.1@.contains(a) <==> has_status_upto(*self, NodeStatus::Questionable, a, self.buckets.len() as int, 0), // @C10.contacts_questionable_exact
    {
        broadcast use sockaddr_key_model, vstd::std_specs::hash::group_hash_axioms;
        let mut good = HashSet::new();
        let mut questionable = HashSet::new();

        for bucket in itb: &self.buckets
            invariant
                forall|a: SocketAddr| good@.contains(a) <==> has_status_upto(*self, NodeStatus::Good, a, itb.index@, 0),
                forall|a: SocketAddr| questionable@.contains(a) <==> has_status_upto(*self, NodeStatus::Questionable, a, itb.index@, 0),
        {
            let ghost bi = itb.index@;
            assert(*bucket == self.buckets[bi]);
            for node in itn: bucket.nodes.iter()
                invariant
                    0 <= bi < self.buckets.len(), *bucket == self.buckets[bi],
                    itn.snapshot@.remaining().len() == 8,
                    forall|i: int| 0 <= i < 8 ==> *(#[trigger] itn.snapshot@.remaining()[i]) == bucket.nodes[i],
                    forall|a: SocketAddr| good@.contains(a) <==> has_status_upto(*self, NodeStatus::Good, a, bi, itn.index@),
                    forall|a: SocketAddr| questionable@.contains(a) <==> has_status_upto(*self, NodeStatus::Questionable, a, bi, itn.index@),
            {
                broadcast use sockaddr_key_model, vstd::std_specs::hash::group_hash_axioms;
                let ghost ni = itn.index@;
                assert(*node == self.buckets[bi].nodes[ni]);
                let ghost g0 = good@;
                let ghost q0 = questionable@;
                if node.status() == NodeStatus::Good {
                    good.insert(node.handle().addr);
                } else if node.status() == NodeStatus::Questionable {
                    questionable.insert(node.handle().addr);
                }
                proof {
                    let x = self.buckets[bi].nodes[ni];
                    assert(0 <= ni < 8);
                    assert(good@ == (if st(x) == NodeStatus::Good { g0.insert(x.handle.addr) } else { g0 }));
                    assert(questionable@ == (if st(x) == NodeStatus::Questionable { q0.insert(x.handle.addr) } else { q0 }));
                    assert forall|a: SocketAddr| good@.contains(a) <==> has_status_upto(*self, NodeStatus::Good, a, bi, ni + 1) by {
                        lemma_upto_step(*self, NodeStatus::Good, a, bi, ni);
                    }
                    assert forall|a: SocketAddr| questionable@.contains(a) <==> has_status_upto(*self, NodeStatus::Questionable, a, bi, ni + 1) by {
                        lemma_upto_step(*self, NodeStatus::Questionable, a, bi, ni);
                    }
                }
            }
            proof {
                assert forall|a: SocketAddr| good@.contains(a) <==> has_status_upto(*self, NodeStatus::Good, a, bi + 1, 0) by {
                    lemma_upto_row(*self, NodeStatus::Good, a, bi);
                }
                assert forall|a: SocketAddr| questionable@.contains(a) <==> has_status_upto(*self, NodeStatus::Questionable, a, bi + 1, 0) by {
                    lemma_upto_row(*self, NodeStatus::Questionable, a, bi);
                }
            }
        }

        (good, questionable)
    }
//@end

//@begin fn src/table.rs impl:RoutingTable find_node_mut props=C10,C12
    pub fn find_node_mut<'a>(&'a mut self, node: &'_ NodeHandle) -> Option<&'a mut Node>
        requires old(self).buckets.len() >= 1,
    {
        let bucket_index = self.bucket_index_for_node(node.id);
        let bucket = self.buckets.get_mut(bucket_index)?;
        bucket.pingable_nodes_mut().find(|n: &&mut Node| -> (b: bool)
            ensures b == (old(*n).handle == *node), // @C12.query_marks_only_matching_known_node
            { n.handle() == node })
    }
//@end

//@begin fn src/table.rs impl:RoutingTable add_node props=C08,C12
    pub fn add_node(&mut self, node: Node)
        requires old(self).wf(), node.wf(), old(self).fresh_or_absent(node),
        ensures final(self).wf(), final(self).buckets.len() >= old(self).buckets.len(), final(self).node_id == old(self).node_id,
            final(self).routers@ == old(self).routers@,
            Self::only_adds(*old(self), *final(self), node),
            st(node) == NodeStatus::Bad ==> *final(self) == *old(self), // @C08.bad_never_admitted
            old(self).routers@.contains(node.handle.addr) ==> *final(self) == *old(self), // @C08.router_never_admitted
            node.handle.id == old(self).node_id ==> *final(self) == *old(self), // @C08.own_id_never_admitted
            !old(self).routers@.contains(node.handle.addr) ==> no_split_step(*old(self), *final(self), node), // @C08.admitted_when_room_or_worse
            exists|v: Node| #[trigger] survivors(*old(self), *final(self), node, v), // @C08.at_most_one_strictly_worse_victim
            prov(*old(self), *final(self), node), // @C12.offer_creates_no_other_record
        decreases 160 - old(self).buckets.len(), 2int
    {
        broadcast use lbc_ax, sockaddr_key_model;
        if self.routers.contains(&node.addr()) {
            proof { lemma_survivors_refl(*self, node); lemma_prov_refl(*self, node); }
            return;
        }

        // Doing some checks and calculations here, outside of the recursion
        if node.status() == NodeStatus::Bad {
            proof { lemma_survivors_refl(*self, node); lemma_prov_refl(*self, node); }
            return;
        }
        let num_same_bits = leading_bit_count(self.node_id, node.id());

        // Should not add a node that has the same id as us
        if num_same_bits != MAX_BUCKETS {
            self.bucket_node(node, num_same_bits);
        } else {
            proof { lemma_survivors_refl(*self, node); lemma_prov_refl(*self, node); }
        }
    }
//@end
//@begin fn src/table.rs impl:RoutingTable bucket_node props=C08
    pub fn bucket_node(&mut self, node: Node, num_same_bits: usize)
        requires old(self).wf(), node.wf(), num_same_bits == lbc(old(self).node_id, node.handle.id), num_same_bits != 160,
            old(self).fresh_or_absent(node), st(node) != NodeStatus::Bad, !old(self).routers@.contains(node.handle.addr),
        ensures final(self).wf(), final(self).buckets.len() >= old(self).buckets.len(), final(self).node_id == old(self).node_id,
            final(self).routers@ == old(self).routers@,
            Self::only_adds(*old(self), *final(self), node),
            no_split_step(*old(self), *final(self), node),
            exists|v: Node| #[trigger] survivors(*old(self), *final(self), node, v),
            prov(*old(self), *final(self), node),
        decreases 160 - old(self).buckets.len(), 1int
    {
        let bucket_index = bucket_placement(num_same_bits, self.buckets.len());

        // Try to place in correct bucket
        if !self.buckets[bucket_index].add_node(node.clone()) {
            proof {
                assert(self.buckets[bucket_index as int].nodes == old(self).buckets[bucket_index as int].nodes);
                assert(self.buckets@ =~= old(self).buckets@);
                lemma_routers_ok_same(*old(self), *self);
            }
            // Bucket was full, try to split it
            let ghost mid = *self;
            if self.split_bucket(bucket_index) {
                proof {
                    assert(mid.fresh_or_absent(node));
                    if node.last_request is Some { assert(mid.absent(node)); assert(self.absent(node)); }
                }
                let ghost mid2 = *self;
                // Bucket split successfully, try to add again
                self.bucket_node(node, num_same_bits);
                proof {
                    assert forall|m: Node| #[trigger] old(self).absent(m) && !same_handle(m, node) implies self.absent(m) by {
                        assert(mid.absent(m));
                        assert(mid2.absent(m));
                    }
                    let v = choose|v: Node| #[trigger] survivors(mid2, *self, node, v);
                    lemma_keeps_live_cong(mid, *old(self), mid2);
                    lemma_survivors_compose(*old(self), mid2, *self, node, v);
                    lemma_prov_split_cong(mid, *old(self), mid2);
                    lemma_prov_compose(*old(self), mid2, *self, node);
                }
            } else {
                proof { lemma_survivors_same(*old(self), *self, node); lemma_prov_same(*old(self), *self, node); }
            }
        } else {
            proof {
                lemma_survivors_one_bucket(*old(self), *self, node, bucket_index as int);
                lemma_prov_one_bucket(*old(self), *self, node, bucket_index as int);
            }
            proof {
                let bi = bucket_index as int;
                assert forall|m: Node| #[trigger] old(self).absent(m) && !same_handle(m, node) implies self.absent(m) by {
                    assert forall|i: int, k: int| 0 <= i < self.buckets.len() && 0 <= k < 8 && real(#[trigger] self.buckets[i].nodes[k]) implies !same_handle(self.buckets[i].nodes[k], m) by {
                        if i == bi {
                            let f = self.buckets[bi].nodes[k];
                            let o = old(self).buckets[bi].nodes[k];
                            if real(o) && same_handle(f, o) { assert(real(old(self).buckets[i].nodes[k])); }
                        } else {
                            assert(self.buckets[i] == old(self).buckets[i]);
                        }
                    }
                }
            }
            proof { lemma_routers_ok(*old(self), *self, node); }
        }
    }
//@end
//@begin fn src/table.rs impl:RoutingTable split_bucket props=C08
    pub fn split_bucket(&mut self, bucket_index: usize) -> (r: bool)
        requires old(self).wf(),
        ensures final(self).wf(), r ==> final(self).buckets.len() > old(self).buckets.len(),
              !r ==> *final(self) == *old(self), final(self).node_id == old(self).node_id,
              final(self).routers@ == old(self).routers@,
              Self::adds_nothing(*old(self), *final(self)),
              // C08: a split loses no live node
              keeps_live(*old(self), *final(self)),
              prov_split(*old(self), *final(self)),
        decreases 160 - old(self).buckets.len(), 0int
    {
        if !can_split_bucket(self.buckets.len(), bucket_index) {
            proof {
                reveal(keeps_live);
                assert forall|i: int, k: int| 0 <= i < old(self).buckets.len() && 0 <= k < 8 && live(#[trigger] old(self).buckets[i].nodes[k]) implies present(*self, old(self).buckets[i].nodes[k]) by {
                    assert(slot_is(*self, old(self).buckets[i].nodes[k], i, k));
                }
                lemma_prov_split_refl(*self);
            }
            return false;
        }

        let split_bucket = match self.buckets.pop() {
            Some(bucket) => bucket,
            None => panic!("no buckets present in RoutingTable - implementation error"),
        };

        // Push two more buckets to distribute nodes between
        self.buckets.push(Bucket::new());
        self.buckets.push(Bucket::new());

        let ghost n = old(self).buckets.len() as int;
        let ghost t0 = *self;
        proof {
            broadcast use lbc_ax, filler_ax;
            assert(self.buckets.len() == n + 1);
            assert forall|k: int| 0 <= k < 8 implies !real(#[trigger] self.buckets[n - 1].nodes[k]) && !real(#[trigger] self.buckets[n].nodes[k]) by {
                assert(self.buckets[n - 1].nodes[k] == filler()); assert(self.buckets[n].nodes[k] == filler());
            }
            assert(split_bucket == old(self).buckets[n - 1]);
            assert forall|i: int| 0 <= i < n - 1 implies self.buckets[i] == old(self).buckets[i] by {}
            assert forall|i: int, k: int| 0 <= i < self.buckets.len() && 0 <= k < 8 implies placed(*self, i, #[trigger] self.buckets[i].nodes[k]) by {
                if i < n - 1 { assert(placed(*old(self), i, old(self).buckets[i].nodes[k])); }
            }
            // nothing real outside the untouched prefix
            assert forall|m: Node| #[trigger] old(self).absent(m) implies self.absent(m) by {
                assert forall|i: int, k: int| 0 <= i < self.buckets.len() && 0 <= k < 8 && real(#[trigger] self.buckets[i].nodes[k]) implies !same_handle(self.buckets[i].nodes[k], m) by {
                    assert(i < n - 1);
                    assert(real(old(self).buckets[i].nodes[k]));
                }
            }
            lemma_routers_ok_nothing(*old(self), *self);
            assert(self.wf());
        }

        proof {
            assert(split_bucket.wf());
            assert(split_bucket.nodup());
            assert(t0.wf());
            assert(forall|k: int| 0 <= k < 8 ==> !real(#[trigger] t0.buckets[n - 1].nodes[k]));
            assert(forall|k: int| 0 <= k < 8 ==> !real(#[trigger] t0.buckets[n].nodes[k]));
            assert(self.buckets.len() <= 160);
        }
        let ghost mut c1: int = 0;
        let ghost mut c2: int = 0;
        proof {
            broadcast use filler_ax;
            assert(shaped(self.buckets[n - 1].nodes@, 0));
            assert(shaped(self.buckets[n].nodes@, 0));
            reveal(prov_split);
            assert forall|i: int, k: int| 0 <= i < self.buckets.len() && 0 <= k < 8 implies present(*old(self), #[trigger] self.buckets[i].nodes[k]) || self.buckets[i].nodes[k] == filler() by {
                if i < n - 1 { assert(self.buckets[i] == old(self).buckets[i]); assert(slot_is(*old(self), self.buckets[i].nodes[k], i, k)); }
            }
            assert(prov_split(*old(self), *self));
        }
        for node in it: split_bucket.nodes.iter()
            invariant self.wf(), self.buckets.len() == n + 1, self.buckets.len() <= 160, n < 160, self.routers@ == old(self).routers@,
               // survivors
               shaped(self.buckets[n - 1].nodes@, c1), shaped(self.buckets[n].nodes@, c2), 0 <= c1, 0 <= c2, c1 + c2 <= it.index@,
               prov_split(*old(self), *self),
               forall|i: int| 0 <= i < n - 1 ==> #[trigger] self.buckets[i] == old(self).buckets[i],
               forall|kk: int| 0 <= kk < it.index@ && live(#[trigger] split_bucket.nodes[kk]) ==> present(*self, split_bucket.nodes[kk]),
               forall|k: int, j: int| 0 <= k < c1 && it.index@ <= j < 8 && real(#[trigger] split_bucket.nodes[j]) ==> !same_handle(#[trigger] self.buckets[n - 1].nodes[k], split_bucket.nodes[j]),
               forall|k: int, j: int| 0 <= k < c2 && it.index@ <= j < 8 && real(#[trigger] split_bucket.nodes[j]) ==> !same_handle(#[trigger] self.buckets[n].nodes[k], split_bucket.nodes[j]), self.node_id == old(self).node_id, split_bucket.wf(), split_bucket.nodup(),
               n == old(self).buckets.len(), old(self).wf(), split_bucket == old(self).buckets[n - 1],
               it.snapshot@.remaining().len() == 8,
               forall|i: int| 0 <= i < 8 ==> *(#[trigger] it.snapshot@.remaining()[i]) == split_bucket.nodes[i],
               0 <= it.index@ <= 8,
               t0.wf(), t0.buckets.len() == n + 1, t0.node_id == old(self).node_id,
               forall|i: int| 0 <= i < n - 1 ==> #[trigger] t0.buckets[i] == old(self).buckets[i],
               forall|k: int| 0 <= k < 8 ==> !real(#[trigger] t0.buckets[n - 1].nodes[k]),
               forall|k: int| 0 <= k < 8 ==> !real(#[trigger] t0.buckets[n].nodes[k]),
               // real handles now present: those of t0 plus the re-inserted prefix of the split bucket
               forall|m: Node| #[trigger] t0.absent(m) && (forall|k: int| 0 <= k < it.index@ && real(#[trigger] split_bucket.nodes[k]) ==> !same_handle(m, split_bucket.nodes[k])) ==> self.absent(m),
        {
            proof {
                broadcast use lbc_ax;
                let idx = it.index@ as int;
                assert(idx < 8);
                assert(*node == split_bucket.nodes[idx]);
                let m = *node;
                if st(m) != NodeStatus::Bad && m.last_request is Some {
                    assert(real(m));
                    // absent in t0: prefix buckets hold ids at a different distance, fresh buckets hold nothing real
                    assert(placed(*old(self), n - 1, old(self).buckets[n - 1].nodes[idx]));
                    assert forall|i: int, k: int| 0 <= i < t0.buckets.len() && 0 <= k < 8 && real(#[trigger] t0.buckets[i].nodes[k]) implies !same_handle(t0.buckets[i].nodes[k], m) by {
                        if i == n - 1 { assert(!real(t0.buckets[n - 1].nodes[k])); }
                        if i == n { assert(!real(t0.buckets[n].nodes[k])); }
                        assert(i < n - 1);
                        assert(t0.buckets[i] == old(self).buckets[i]);
                        assert(placed(*old(self), i, old(self).buckets[i].nodes[k]));
                    }
                    assert(t0.absent(m));
                    assert forall|k: int| 0 <= k < idx && real(#[trigger] split_bucket.nodes[k]) implies !same_handle(m, split_bucket.nodes[k]) by {}
                    assert(self.absent(m));
                }
            }
            let ghost before = *self;
            proof {
                broadcast use lbc_ax;
                let idx = it.index@ as int;
                let x = *node;
                if live(x) {
                    assert(real(x));
                    assert(!self.routers@.contains(x.handle.addr)) by {
                        reveal(RoutingTable::routers_ok);
                        assert(real(old(self).buckets[n - 1].nodes[idx]));
                    }
                    assert(placed(*old(self), n - 1, old(self).buckets[n - 1].nodes[idx]));
                    let l = lbc(self.node_id, x.handle.id) as int;
                    let b = placement_spec(l, n + 1);
                    assert(b == n - 1 || b == n);
                    if b == n - 1 { lemma_add_to_shaped(self.buckets[n - 1].nodes@, c1, x); }
                    else { lemma_add_to_shaped(self.buckets[n].nodes@, c2, x); }
                }
            }
            self.add_node(node.clone());
            proof {
                broadcast use lbc_ax;
                let idx = it.index@ as int;
                let x = *node;
                if live(x) {
                    let l = lbc(before.node_id, x.handle.id) as int;
                    let b = placement_spec(l, n + 1);
                    if b == n - 1 {
                        assert(self.buckets[n - 1].nodes@ == before.buckets[n - 1].nodes@.update(c1, x));
                        assert(slot_is(*self, x, n - 1, c1));
                        assert(slot_is(*old(self), x, n - 1, idx));
                        lemma_prov_split_update(*old(self), before, *self, n - 1, c1, x);
                        assert forall|kk: int| 0 <= kk < idx && live(#[trigger] split_bucket.nodes[kk]) implies present(*self, split_bucket.nodes[kk]) by {
                            let y = split_bucket.nodes[kk];
                            let (i0, k0) = choose|i0: int, k0: int| slot_is(before, y, i0, k0);
                            if i0 == n - 1 { assert(k0 != c1) by { if k0 >= c1 { assert(before.buckets[n - 1].nodes[k0] == filler()); broadcast use filler_ax; } } assert(self.buckets[n - 1].nodes@[k0] == before.buckets[n - 1].nodes@[k0]); }
                            else { assert(self.buckets[i0] == before.buckets[i0]); }
                            assert(slot_is(*self, y, i0, k0));
                        }
                        c1 = c1 + 1;
                    } else {
                        assert(self.buckets[n].nodes@ == before.buckets[n].nodes@.update(c2, x));
                        assert(slot_is(*self, x, n, c2));
                        assert(slot_is(*old(self), x, n - 1, idx));
                        lemma_prov_split_update(*old(self), before, *self, n, c2, x);
                        assert forall|kk: int| 0 <= kk < idx && live(#[trigger] split_bucket.nodes[kk]) implies present(*self, split_bucket.nodes[kk]) by {
                            let y = split_bucket.nodes[kk];
                            let (i0, k0) = choose|i0: int, k0: int| slot_is(before, y, i0, k0);
                            if i0 == n { assert(k0 != c2) by { if k0 >= c2 { assert(before.buckets[n].nodes[k0] == filler()); broadcast use filler_ax; } } assert(self.buckets[n].nodes@[k0] == before.buckets[n].nodes@[k0]); }
                            else { assert(self.buckets[i0] == before.buckets[i0]); }
                            assert(slot_is(*self, y, i0, k0));
                        }
                        c2 = c2 + 1;
                    }
                }
                assert forall|m: Node| #[trigger] t0.absent(m) && (forall|k: int| 0 <= k < idx + 1 && real(#[trigger] split_bucket.nodes[k]) ==> !same_handle(m, split_bucket.nodes[k])) implies self.absent(m) by {
                    assert(forall|k: int| 0 <= k < idx && real(#[trigger] split_bucket.nodes[k]) ==> !same_handle(m, split_bucket.nodes[k]));
                    assert(before.absent(m));
                    if st(split_bucket.nodes[idx]) != NodeStatus::Bad {
                        assert(real(split_bucket.nodes[idx]));
                        assert(!same_handle(m, split_bucket.nodes[idx]));
                    }
                }
            }
        }

        proof {
            reveal(keeps_live);
            assert forall|i: int, k: int| 0 <= i < old(self).buckets.len() && 0 <= k < 8 && live(#[trigger] old(self).buckets[i].nodes[k]) implies present(*self, old(self).buckets[i].nodes[k]) by {
                if i < n - 1 { assert(slot_is(*self, old(self).buckets[i].nodes[k], i, k)); }
                else { assert(split_bucket.nodes[k] == old(self).buckets[i].nodes[k]); }
            }
            assert forall|m: Node| #[trigger] old(self).absent(m) implies self.absent(m) by {
                assert(t0.absent(m));
                assert forall|k: int| 0 <= k < 8 && real(#[trigger] split_bucket.nodes[k]) implies !same_handle(m, split_bucket.nodes[k]) by {
                    assert(real(old(self).buckets[n - 1].nodes[k]));
                }
            }
        }

        true
    }
//@end
}
//@props C12
pub proof fn lemma_prov_refl(t: RoutingTable, node: Node) ensures prov(t, t, node) {
    reveal(prov);
    assert forall|i: int, k: int| 0 <= i < t.buckets.len() && 0 <= k < 8 implies present(t, #[trigger] t.buckets[i].nodes[k]) by { assert(slot_is(t, t.buckets[i].nodes[k], i, k)); }
}
//@props C12
pub proof fn lemma_prov_split_refl(t: RoutingTable) ensures prov_split(t, t) {
    reveal(prov_split);
    assert forall|i: int, k: int| 0 <= i < t.buckets.len() && 0 <= k < 8 implies present(t, #[trigger] t.buckets[i].nodes[k]) by { assert(slot_is(t, t.buckets[i].nodes[k], i, k)); }
}
//@props C12
pub proof fn lemma_prov_same(o: RoutingTable, f: RoutingTable, node: Node)
    requires o.buckets@ == f.buckets@
    ensures prov(o, f, node)
{
    reveal(prov);
    assert forall|i: int, k: int| 0 <= i < f.buckets.len() && 0 <= k < 8 implies present(o, #[trigger] f.buckets[i].nodes[k]) by {
        assert(o.buckets[i] == f.buckets@[i]);
        assert(slot_is(o, f.buckets[i].nodes[k], i, k));
    }
}
//@props C12
pub proof fn lemma_prov_one_bucket(o: RoutingTable, f: RoutingTable, node: Node, b: int)
    requires 0 <= b < o.buckets.len(), f.buckets.len() == o.buckets.len(),
        forall|i: int| 0 <= i < o.buckets.len() && i != b ==> #[trigger] f.buckets[i] == o.buckets[i],
        f.buckets[b].nodes@ == bucket_add_spec(o.buckets[b].nodes@, node).0,
    ensures prov(o, f, node)
{
    reveal(prov);
    let ob = o.buckets[b].nodes@;
    lemma_first(ob, p_same(node), 0); lemma_first(ob, p_bad(), 0); lemma_first(ob, p_lower(st(node)), 0);
    let s1 = first(ob, p_same(node), 0);
    assert forall|i: int, k: int| 0 <= i < f.buckets.len() && 0 <= k < 8 implies
        present(o, #[trigger] f.buckets[i].nodes[k]) || f.buckets[i].nodes[k] == filler() || derived(o, f.buckets[i].nodes[k], node) by {
        let y = f.buckets[i].nodes[k];
        if i != b { assert(f.buckets[i] == o.buckets[i]); assert(slot_is(o, y, i, k)); }
        else {
            assert(y == f.buckets[b].nodes@[k]);
            if y == ob[k] { assert(slot_is(o, y, b, k)); }
            else if s1 < 8 && st(node) != NodeStatus::Bad {
                assert(k == s1);
                assert(slot_is(o, o.buckets[b].nodes[s1], b, s1));
                assert(y == o.buckets[b].nodes[s1].update_spec(node));
            }
        }
    }
}
//@props C12
pub proof fn lemma_prov_split_cong(o: RoutingTable, o2: RoutingTable, m: RoutingTable)
    requires prov_split(o, m), o.buckets@ == o2.buckets@
    ensures prov_split(o2, m)
{
    reveal(prov_split);
    assert forall|i: int, k: int| 0 <= i < m.buckets.len() && 0 <= k < 8 implies present(o2, #[trigger] m.buckets[i].nodes[k]) || m.buckets[i].nodes[k] == filler() by {
        let y = m.buckets[i].nodes[k];
        if present(o, y) {
            let (i0, k0) = choose|i0: int, k0: int| slot_is(o, y, i0, k0);
            assert(o2.buckets[i0] == o.buckets@[i0]);
            assert(slot_is(o2, y, i0, k0));
        }
    }
}
//@props C12
pub proof fn lemma_prov_compose(o: RoutingTable, m: RoutingTable, f: RoutingTable, node: Node)
    requires prov_split(o, m), prov(m, f, node), real(node)
    ensures prov(o, f, node)
{
    reveal(prov); reveal(prov_split);
    broadcast use filler_ax;
    assert forall|i: int, k: int| 0 <= i < f.buckets.len() && 0 <= k < 8 implies
        present(o, #[trigger] f.buckets[i].nodes[k]) || f.buckets[i].nodes[k] == filler() || derived(o, f.buckets[i].nodes[k], node) by {
        let y = f.buckets[i].nodes[k];
        if present(m, y) {
            let (i0, k0) = choose|i0: int, k0: int| slot_is(m, y, i0, k0);
            assert(present(o, m.buckets[i0].nodes[k0]) || m.buckets[i0].nodes[k0] == filler());
        } else if y != filler() && y != node {
            let (i0, k0) = choose|i0: int, k0: int| #[trigger] slot_is(m, m.buckets[i0].nodes[k0], i0, k0) && same_handle(m.buckets[i0].nodes[k0], node) && y == m.buckets[i0].nodes[k0].update_spec(node);
            let z = m.buckets[i0].nodes[k0];
            assert(present(o, z) || z == filler());
            if z == filler() {
                // a placeholder of the same handle merged with the offer is the offer itself (placeholder is Bad) or the placeholder
                assert(st(filler()) == NodeStatus::Bad);
                assert(y == node || y == filler());
            } else {
                let (i1, k1) = choose|i1: int, k1: int| slot_is(o, z, i1, k1);
                assert(slot_is(o, o.buckets[i1].nodes[k1], i1, k1));
            }
        }
    }
}
//@props C12
pub proof fn lemma_prov_split_update(o: RoutingTable, before: RoutingTable, after: RoutingTable, b: int, c: int, x: Node)
    requires prov_split(o, before), present(o, x), 0 <= b < before.buckets.len(), 0 <= c < 8, after.buckets.len() == before.buckets.len(),
        after.buckets[b].nodes@ == before.buckets[b].nodes@.update(c, x),
        forall|i: int| 0 <= i < before.buckets.len() && i != b ==> #[trigger] after.buckets[i] == before.buckets[i],
    ensures prov_split(o, after)
{
    reveal(prov_split);
    assert forall|i: int, k: int| 0 <= i < after.buckets.len() && 0 <= k < 8 implies present(o, #[trigger] after.buckets[i].nodes[k]) || after.buckets[i].nodes[k] == filler() by {
        if i != b { assert(after.buckets[i] == before.buckets[i]); }
        else if k != c { assert(after.buckets[b].nodes@[k] == before.buckets[b].nodes@[k]); }
        else { assert(after.buckets[b].nodes@[c] == x); }
    }
}
/// C12: a record that is reported good after an offer either was in the table before (the identical record) or carries the offered handle
//@props C12
pub proof fn lemma_no_new_good(o: RoutingTable, f: RoutingTable, node: Node, i: int, k: int)
    requires prov(o, f, node), 0 <= i < f.buckets.len() && 0 <= k < 8, st(f.buckets[i].nodes[k]) == NodeStatus::Good, st(node) != NodeStatus::Good
    ensures present(o, f.buckets[i].nodes[k]) // @C12.named_node_never_becomes_good
{
    reveal(prov);
    broadcast use filler_ax;
    let y = f.buckets[i].nodes[k];
    if !present(o, y) {
        assert(y != filler());
        assert(derived(o, y, node));
        assert(y != node);
        let (i0, k0) = choose|i0: int, k0: int| #[trigger] slot_is(o, o.buckets[i0].nodes[k0], i0, k0) && same_handle(o.buckets[i0].nodes[k0], node) && y == o.buckets[i0].nodes[k0].update_spec(node);
        // update_spec with an offer that is not good keeps the old record, or takes the (not good) offer
        assert(y == o.buckets[i0].nodes[k0] || y == node);
    }
}

//@props C12
pub proof fn lemma_good_from_prov(o: RoutingTable, f: RoutingTable, node: Node)
    requires prov(o, f, node)
    ensures good_from(o, f, node)
{
    reveal(prov); reveal(good_from);
    broadcast use filler_ax;
    assert forall|i: int, k: int| 0 <= i < f.buckets.len() && 0 <= k < 8 && st(#[trigger] f.buckets[i].nodes[k]) == NodeStatus::Good implies
        present(o, f.buckets[i].nodes[k]) || same_handle(f.buckets[i].nodes[k], node) by {
        let y = f.buckets[i].nodes[k];
        if !present(o, y) && y != node {
            assert(derived(o, y, node));
            let (i0, k0) = choose|i0: int, k0: int| #[trigger] slot_is(o, o.buckets[i0].nodes[k0], i0, k0) && same_handle(o.buckets[i0].nodes[k0], node) && y == o.buckets[i0].nodes[k0].update_spec(node);
        }
    }
}
//@props C12
pub proof fn lemma_good_from_step(o: RoutingTable, t: RoutingTable, f: RoutingTable, node: Node, hq: Node)
    requires good_from(o, t, node), prov(t, f, hq), st(hq) != NodeStatus::Good
    ensures good_from(o, f, node)
{
    reveal(good_from);
    assert forall|i: int, k: int| 0 <= i < f.buckets.len() && 0 <= k < 8 && st(#[trigger] f.buckets[i].nodes[k]) == NodeStatus::Good implies
        present(o, f.buckets[i].nodes[k]) || same_handle(f.buckets[i].nodes[k], node) by {
        let y = f.buckets[i].nodes[k];
        lemma_no_new_good(t, f, hq, i, k);
        let (i0, k0) = choose|i0: int, k0: int| slot_is(t, y, i0, k0);
        assert(st(t.buckets[i0].nodes[k0]) == NodeStatus::Good);
    }
}
//@props C08
pub proof fn lemma_routers_ok(o: RoutingTable, f: RoutingTable, node: Node)
    requires RoutingTable::only_adds(o, f, node), f.routers@ == o.routers@, !o.routers@.contains(node.handle.addr), o.routers_ok()
    ensures f.routers_ok()
{
    reveal(RoutingTable::routers_ok);
    assert forall|i: int, k: int| 0 <= i < f.buckets.len() && 0 <= k < 8 && real(#[trigger] f.buckets[i].nodes[k]) implies !f.routers@.contains(f.buckets[i].nodes[k].handle.addr) by {
        let x = f.buckets[i].nodes[k];
        if !same_handle(x, node) {
            assert(!f.absent(x));
            assert(!o.absent(x));
            let (i0, k0) = choose|i0: int, k0: int| 0 <= i0 < o.buckets.len() && 0 <= k0 < 8 && real(#[trigger] o.buckets[i0].nodes[k0]) && same_handle(o.buckets[i0].nodes[k0], x);
            assert(o.buckets[i0].nodes[k0].handle.addr == x.handle.addr);
        }
    }
}
//@props C08
pub proof fn lemma_routers_ok_same(o: RoutingTable, f: RoutingTable)
    requires f.buckets@ == o.buckets@, f.routers@ == o.routers@, o.routers_ok()
    ensures f.routers_ok()
{
    reveal(RoutingTable::routers_ok);
    assert forall|i: int, k: int| 0 <= i < f.buckets.len() && 0 <= k < 8 && real(#[trigger] f.buckets[i].nodes[k]) implies !f.routers@.contains(f.buckets[i].nodes[k].handle.addr) by {
        assert(f.buckets[i] == o.buckets@[i]);
    }
}
//@props C08
pub proof fn lemma_routers_ok_nothing(o: RoutingTable, f: RoutingTable)
    requires RoutingTable::adds_nothing(o, f), f.routers@ == o.routers@, o.routers_ok()
    ensures f.routers_ok()
{
    reveal(RoutingTable::routers_ok);
    assert forall|i: int, k: int| 0 <= i < f.buckets.len() && 0 <= k < 8 && real(#[trigger] f.buckets[i].nodes[k]) implies !f.routers@.contains(f.buckets[i].nodes[k].handle.addr) by {
        let x = f.buckets[i].nodes[k];
        assert(!f.absent(x));
        assert(!o.absent(x));
        let (i0, k0) = choose|i0: int, k0: int| 0 <= i0 < o.buckets.len() && 0 <= k0 < 8 && real(#[trigger] o.buckets[i0].nodes[k0]) && same_handle(o.buckets[i0].nodes[k0], x);
        assert(o.buckets[i0].nodes[k0].handle.addr == x.handle.addr);
    }
}

pub proof fn lemma_keeps_live_cong(o: RoutingTable, o2: RoutingTable, m: RoutingTable)
    requires keeps_live(o, m), o.buckets@ == o2.buckets@
    ensures keeps_live(o2, m)
{
    reveal(keeps_live);
    assert forall|i: int, k: int| 0 <= i < o2.buckets.len() && 0 <= k < 8 && live(#[trigger] o2.buckets[i].nodes[k]) implies present(m, o2.buckets[i].nodes[k]) by {
        assert(o2.buckets[i] == o.buckets@[i]);
        assert(live(o.buckets[i].nodes[k]));
    }
}

pub proof fn lemma_survivors_compose(o: RoutingTable, m: RoutingTable, f: RoutingTable, node: Node, v: Node)
    requires keeps_live(o, m), survivors(m, f, node, v)
    ensures survivors(o, f, node, v)
{
    reveal(keeps_live); reveal(survivors);
    assert forall|i: int, k: int| 0 <= i < o.buckets.len() && 0 <= k < 8 && live(#[trigger] o.buckets[i].nodes[k])
        && !same_handle(o.buckets[i].nodes[k], node) && o.buckets[i].nodes[k] != v implies present(f, o.buckets[i].nodes[k]) by {
        let x = o.buckets[i].nodes[k];
        assert(present(m, x));
        let (i2, k2) = choose|i2: int, k2: int| slot_is(m, x, i2, k2);
        assert(m.buckets[i2].nodes[k2] == x);
    }
    if present(o, v) && live(v) && !same_handle(v, node) && !present(f, v) {
        let (i1, k1) = choose|i1: int, k1: int| slot_is(o, v, i1, k1);
        assert(live(o.buckets[i1].nodes[k1]));
        assert(present(m, v));
    }
}

// the non-split case: exactly one bucket changes, by `bucket_add_spec`
pub proof fn lemma_survivors_one_bucket(o: RoutingTable, f: RoutingTable, node: Node, b: int)
    requires 0 <= b < o.buckets.len(), f.buckets.len() == o.buckets.len(), st(node) != NodeStatus::Bad,
        bucket_add_spec(o.buckets[b].nodes@, node) == (f.buckets[b].nodes@, true),
        forall|i: int| 0 <= i < o.buckets.len() && i != b ==> #[trigger] f.buckets[i] == o.buckets[i],
    ensures exists|v: Node| #[trigger] survivors(o, f, node, v)
{
    reveal(survivors);
    let ob = o.buckets[b].nodes@;
    let s = first(ob, p_same(node), 0);
    let d = first(ob, p_bad(), 0);
    let q = first(ob, p_lower(st(node)), 0);
    lemma_first(ob, p_same(node), 0); lemma_first(ob, p_bad(), 0); lemma_first(ob, p_lower(st(node)), 0);
    let c = if s < 8 { s } else if d < 8 { d } else { q };
    let v = if s < 8 || d < 8 { node } else { ob[q] };
    assert(c < 8);
    assert forall|i: int, k: int| 0 <= i < o.buckets.len() && 0 <= k < 8 && live(#[trigger] o.buckets[i].nodes[k])
        && !same_handle(o.buckets[i].nodes[k], node) && o.buckets[i].nodes[k] != v implies present(f, o.buckets[i].nodes[k]) by {
        let x = o.buckets[i].nodes[k];
        if i != b { assert(f.buckets[i] == o.buckets[i]); assert(slot_is(f, x, i, k)); }
        else {
            assert(o.buckets[b].nodes@[k] == x);
            assert(k != c);
            assert(f.buckets[b].nodes@[k] == ob[k]);
            assert(slot_is(f, x, b, k));
        }
    }
    assert(survivors(o, f, node, v));
}

pub proof fn lemma_survivors_same(o: RoutingTable, f: RoutingTable, node: Node)
    requires o.buckets@ == f.buckets@
    ensures survivors(o, f, node, node)
{
    reveal(survivors);
    assert forall|i: int, k: int| 0 <= i < o.buckets.len() && 0 <= k < 8 && live(#[trigger] o.buckets[i].nodes[k])
        && !same_handle(o.buckets[i].nodes[k], node) && o.buckets[i].nodes[k] != node implies present(f, o.buckets[i].nodes[k]) by {
        assert(f.buckets[i] == o.buckets@[i]);
        assert(slot_is(f, o.buckets[i].nodes[k], i, k));
    }
}

pub proof fn lemma_survivors_refl(t: RoutingTable, node: Node)
    ensures survivors(t, t, node, node)
{
    reveal(survivors);
    assert forall|i: int, k: int| 0 <= i < t.buckets.len() && 0 <= k < 8 && live(#[trigger] t.buckets[i].nodes[k])
        && !same_handle(t.buckets[i].nodes[k], node) && t.buckets[i].nodes[k] != node implies present(t, t.buckets[i].nodes[k]) by {
        assert(slot_is(t, t.buckets[i].nodes[k], i, k));
    }
}

//@begin fn src/table.rs - can_split_bucket props=C08
pub fn can_split_bucket(num_buckets: usize, bucket_index: usize) -> (r: bool)
    requires num_buckets >= 1
    ensures r == (bucket_index == num_buckets - 1 && bucket_index != 159)
{
    bucket_index == num_buckets - 1 && bucket_index != MAX_BUCKETS - 1
}
//@end
//@begin fn src/table.rs - bucket_placement props=C08
pub fn bucket_placement(num_same_bits: usize, num_buckets: usize) -> (r: usize)
    requires num_buckets >= 1
    ensures r == (if num_same_bits >= num_buckets { (num_buckets - 1) as usize } else { num_same_bits })
{
    let ideal_index = num_same_bits;

    if ideal_index >= num_buckets {
        num_buckets - 1
    } else {
        ideal_index
    }
}
//@end



// ---------- C08 corollaries, stated as in the property ----------
/// no (id, address) pair appears twice in the whole table
//@props C08
pub proof fn lemma_table_nodup(t: RoutingTable, i: int, k: int, j: int, l: int)
    requires t.wf(), 0 <= i < t.buckets.len(), 0 <= j < t.buckets.len(), 0 <= k < 8, 0 <= l < 8, (i, k) != (j, l),
        real(t.buckets[i].nodes[k]), real(t.buckets[j].nodes[l]),
    ensures !same_handle(t.buckets[i].nodes[k], t.buckets[j].nodes[l]) // @C08.no_pair_twice
{
    broadcast use lbc_ax;
    if i == j {
        if k < l { assert(t.buckets[i].nodup()); } else { assert(t.buckets[i].nodup()); }
    } else {
        assert(placed(t, i, t.buckets[i].nodes[k]));
        assert(placed(t, j, t.buckets[j].nodes[l]));
    }
}
/// the local id is never listed; every real entry sits in the bucket of its shared-prefix length
//@props C08
pub proof fn lemma_table_placement(t: RoutingTable, i: int, k: int)
    requires t.wf(), 0 <= i < t.buckets.len(), 0 <= k < 8, real(t.buckets[i].nodes[k]),
    ensures t.buckets[i].nodes[k].handle.id != t.node_id, // @C08.own_id_never_listed
        i == placement_spec(lbc(t.node_id, t.buckets[i].nodes[k].handle.id) as int, t.buckets.len() as int), // @C08.bucket_matches_prefix
        !t.routers@.contains(t.buckets[i].nodes[k].handle.addr), // @C08.router_never_listed
{
    broadcast use lbc_ax;
    reveal(RoutingTable::routers_ok);
    assert(placed(t, i, t.buckets[i].nodes[k]));
}
/// a full bucket of good nodes rejects a newcomer and stays unchanged
//@props C08
pub proof fn lemma_full_good_bucket_rejects(b: Seq<Node>, n: Node)
    requires b.len() == 8, forall|k: int| 0 <= k < 8 ==> st(#[trigger] b[k]) == NodeStatus::Good && !same_handle(b[k], n),
    ensures bucket_add_spec(b, n) == (b, st(n) == NodeStatus::Bad) // @C08.full_good_bucket_rejects
{
    lemma_first_is(b, p_same(n), 0, 8);
    lemma_first_is(b, p_bad(), 0, 8);
    lemma_first_is(b, p_lower(st(n)), 0, 8);
}
/// when the bucket has a free or bad slot, a newcomer displaces no live node
//@props C08
pub proof fn lemma_bad_slot_protects_live(b: Seq<Node>, n: Node, k: int)
    requires b.len() == 8, 0 <= k < 8, st(b[k]) == NodeStatus::Bad, st(n) != NodeStatus::Bad,
        forall|j: int| 0 <= j < 8 ==> !same_handle(#[trigger] b[j], n),
    ensures bucket_add_spec(b, n).1, // @C08.admitted_when_room
        forall|j: int| 0 <= j < 8 && live(#[trigger] b[j]) ==> bucket_add_spec(b, n).0[j] == b[j], // @C08.no_live_victim_while_bad_slot
{
    lemma_first_is(b, p_same(n), 0, 8);
    lemma_first(b, p_bad(), 0);
    let d = first(b, p_bad(), 0);
    assert(d < 8) by { if d >= 8 { assert(!p_bad()(b[k])); } }
}

// ================= C09: order in which ClosestNodes walks the buckets =================
/// rank of bucket index c in the walk that starts at s: s, s+1, s-1, s+2, s-2, ...
pub open spec fn meas(s: int, c: int) -> int {
    if c == s { 0 } else if c > s { 2 * (c - s) - 1 } else { 2 * (s - c) }
}

//@props C09
pub proof fn lemma_meas_injective(s: int, a: int, b: int)
    requires meas(s, a) == meas(s, b)
    ensures a == b // @C09.each_bucket_once
{}
//@props C09
pub proof fn lemma_meas_start_first(s: int, c: int)
    ensures meas(s, c) >= 0, meas(s, c) == 0 <==> c == s // @C09.start_bucket_first
{}
//@begin fn src/table.rs - next_bucket_index props=C09
pub fn next_bucket_index(num_buckets: usize, start_index: usize, curr_index: usize) -> (r: Option<usize>)
    requires num_buckets <= 160, start_index <= num_buckets, curr_index < num_buckets || curr_index == start_index,
    ensures (match r {
        Some(j) => j < num_buckets && meas(start_index as int, j as int) > meas(start_index as int, curr_index as int)
            && forall|k: int| 0 <= k < num_buckets && meas(start_index as int, k) > meas(start_index as int, curr_index as int)
                 ==> meas(start_index as int, k) >= meas(start_index as int, j as int),
        None => forall|k: int| 0 <= k < num_buckets ==> meas(start_index as int, k) <= meas(start_index as int, curr_index as int),
    }), // @C09.walk_nearest_bucket_first_each_once
{
    // Since we prefer going right first, that means if we are on the right side then we want to go
    // to the same offset on the left, however, if we are on the left we want to go 1 past the offset
    // to the right. All assuming we can actually do this without going out of bounds.
    match curr_index.cmp(&start_index) {
        Ordering::Equal => {
            let right_index = start_index.checked_add(1);
            let left_index = start_index.checked_sub(1);

            if index_is_in_bounds(num_buckets, right_index) {
                Some(right_index.unwrap())
            } else if index_is_in_bounds(num_buckets, left_index) {
                Some(left_index.unwrap())
            } else {
                None
            }
        }
        Ordering::Greater => {
            let offset = curr_index - start_index;

            let left_index = start_index.checked_sub(offset);
            let right_index = curr_index.checked_add(1);

            if index_is_in_bounds(num_buckets, left_index) {
                Some(left_index.unwrap())
            } else if index_is_in_bounds(num_buckets, right_index) {
                Some(right_index.unwrap())
            } else {
                None
            }
        }
        Ordering::Less => {
            let offset = (start_index - curr_index) + 1;

            let right_index = start_index.checked_add(offset);
            let left_index = curr_index.checked_sub(1);

            if index_is_in_bounds(num_buckets, right_index) {
                Some(right_index.unwrap())
            } else if index_is_in_bounds(num_buckets, left_index) {
                Some(left_index.unwrap())
            } else {
                None
            }
        }
    }
}
//@end
//@begin fn src/table.rs - index_is_in_bounds props=C09
/// Returns true if the overflow checked index is in bounds of the given length.
pub fn index_is_in_bounds(length: usize, checked_index: Option<usize>) -> (r: bool)
    ensures r == (checked_index is Some && checked_index->0 < length)
{
    match checked_index {
        Some(index) => index < length,
        None => false,
    }
}
//@end

// ================= C09: construction of the ClosestNodes walk (its `next` is outside Verus' subset) =================
/// stand-in for `type GoodNodes<'a> = Filter<Iter<'a, Node>, fn(&&Node) -> bool>` (a filtered bucket iterator)
pub struct GoodNodes<'a> { pub p: core::marker::PhantomData<&'a Node> }
//@begin type src/table.rs - struct ClosestNodes
pub struct ClosestNodes<'a> {
    pub buckets: &'a [Bucket],
    pub current_iter: Option<GoodNodes<'a>>,
    pub current_index: usize,
    pub start_index: usize,
    pub assorted_nodes: Option<[(usize, &'a Node, bool); bucket::MAX_BUCKET_SIZE]>,
}
//@end
pub mod bucket { pub use super::MAX_BUCKET_SIZE; }
// stand-ins (bodies use Filter / peekable / enumerate)
#[verifier::external_body]
pub fn good_node_filter<'a>(iter: core::slice::Iter<'a, Node>) -> GoodNodes<'a> { unimplemented!() }
/// ABSTRACTION (rule R-abs): the rest of precompute_assorted_nodes after its early return (peekable + enumerate over the last bucket)
#[verifier::external_body]
pub fn vx_abs_assorted<'a>(buckets: &'a [Bucket], self_node_id: NodeId) -> Option<[(usize, &'a Node, bool); bucket::MAX_BUCKET_SIZE]> { unimplemented!() }

impl<'a> ClosestNodes<'a> {
//@begin fn src/table.rs impl:<'a>ClosestNodes<'a> new props=C09
    pub fn new(buckets: &'a [Bucket], self_node_id: NodeId, other_node_id: NodeId) -> (r: ClosestNodes<'a>)
        requires 1 <= buckets@.len() <= 160,
        ensures r.start_index == lbc(self_node_id, other_node_id), // @C09.walk_starts_at_the_bucket_of_the_shared_prefix_length
            r.current_index == r.start_index, r.buckets@ == buckets@,
            (r.current_iter is Some) == (r.start_index < sorted_len(buckets@.len() as int)), // @C09.first_bucket_is_the_start_bucket
            buckets@.len() == 160 ==> r.assorted_nodes is None, // @C09.full_depth_table_has_no_assorted_bucket
    {
        let start_index = leading_bit_count(self_node_id, other_node_id);

        let current_iter = bucket_iterator(buckets, start_index);
        let assorted_nodes = precompute_assorted_nodes(buckets, self_node_id);

        ClosestNodes {
            buckets,
            current_iter,
            current_index: start_index,
            start_index,
            assorted_nodes,
        }
    }
//@end
}
/// number of buckets that are iterated as sorted buckets: all 160 of a full-depth table, otherwise all but the last (assorted) one
pub open spec fn sorted_len(n: int) -> int { if n == 160 { 160 } else { n - 1 } }

//@begin fn src/table.rs - precompute_assorted_nodes props=C09
pub fn precompute_assorted_nodes(
    buckets: &[Bucket],
    self_node_id: NodeId,
) -> (r: Option<[(usize, &Node, bool); bucket::MAX_BUCKET_SIZE]>)
    requires 1 <= buckets@.len(),
    ensures buckets@.len() == 160 ==> r is None, // @C09.full_depth_table_has_no_assorted_bucket
{
    if buckets.len() == MAX_BUCKETS {
        return None;
    }
    let assorted_bucket = &buckets[buckets.len() - 1];
    vx_abs_assorted(buckets, self_node_id)
}
//@end

//@begin fn src/table.rs - bucket_iterator props=C09
pub fn bucket_iterator(buckets: &[Bucket], index: usize) -> (r: Option<GoodNodes<'_>>)
    requires 1 <= buckets@.len() <= 160,
    ensures (r is Some) == (index < sorted_len(buckets@.len() as int)), // @C09.last_bucket_is_not_iterated_as_sorted_unless_full_depth
{
    if buckets.len() == MAX_BUCKETS {
        buckets
    } else {
        &buckets[..(buckets.len() - 1)]
    }
    .get(index)
    .map(|bucket: &Bucket| -> (g: GoodNodes<'_>) { good_node_filter(bucket.nodes.iter()) })
}
//@end

// ================= C10: history lemmas over the per-contact transition system =================
// The transition functions are exactly the postconditions of the code above (f_update with f_good /
// f_hearsay = Bucket::add_node on a repeat offer; f_remote_request / f_local_request guarded by the
// `status != Bad` filter of RoutingTable::find_node_mut, proved below in this unit).
pub enum Ev { Answer, Hearsay, QueryRecv, QuerySent }
pub open spec fn step(f: F, e: Ev, t: int) -> F {
    match e {
        Ev::Answer => f_update(f, f_good(t), t),
        Ev::Hearsay => f_update(f, f_hearsay(t), t),
        Ev::QueryRecv => if f_status(f, t) is Bad { f } else { f_remote_request(f, t) },
        Ev::QuerySent => if f_status(f, t) is Bad { f } else { f_local_request(f, t) },
    }
}
// ghost summary of the history: time of the last accepted answer / last accepted incoming query
pub struct G { pub la: Option<int>, pub lqr: Option<int> }
pub open spec fn gstep(f: F, g: G, e: Ev, t: int) -> G {
    match e {
        Ev::Answer => G { la: Some(t), lqr: if f_status(f, t) is Good { g.lqr } else { None } },
        Ev::Hearsay => if f_status(f, t) is Bad { G { la: None, lqr: None } } else { g },
        Ev::QueryRecv => if f_status(f, t) is Bad { g } else { G { lqr: Some(t), ..g } },
        Ev::QuerySent => g,
    }
}
pub open spec fn hinv(f: F, g: G, now: int) -> bool {
    &&& (f.lr is Some ==> g.la == f.lr || (g.la is None && f.lr->0 + Q15() <= now))
    &&& (f.lr is None ==> g.la is None)
    &&& f.lq == g.lqr
    &&& (g.la is Some ==> g.la->0 <= now) && (g.lqr is Some ==> g.lqr->0 <= now)
}
//@props C10
pub proof fn lemma_hinv_init_answer(t: int) ensures hinv(f_good(t), G { la: Some(t), lqr: None }, t) {}
//@props C10
pub proof fn lemma_hinv_init_hearsay(t: int) ensures hinv(f_hearsay(t), G { la: None, lqr: None }, t) {}
//@props C10
pub proof fn lemma_hinv_step(f: F, g: G, e: Ev, now: int, t: int)
    requires hinv(f, g, now), now <= t
    ensures hinv(step(f, e, t), gstep(f, g, e, t), t)
{}
//@props C10
pub proof fn lemma_hinv_time(f: F, g: G, now: int, t: int)
    requires hinv(f, g, now), now <= t
    ensures hinv(f, g, t)
{}
// (a) reported good only if it answered, or (being known) queried us, within the last 15 minutes
//@props C10
pub proof fn lemma_good_only_if(f: F, g: G, now: int)
    requires hinv(f, g, now), f_status(f, now) is Good
    ensures (g.la is Some && now - g.la->0 < Q15()) || (g.lqr is Some && now - g.lqr->0 < Q15()) // @C10.good_only_if_recent
{}
// (b) neither for 15 minutes ==> not reported good
//@props C10
pub proof fn lemma_stale_not_good(f: F, g: G, now: int)
    requires hinv(f, g, now), g.la is None || now - g.la->0 >= Q15(), g.lqr is None || now - g.lqr->0 >= Q15()
    ensures !(f_status(f, now) is Good) // @C10.stale_not_good
{}
// (c) hearsay-only contacts are questionable at every later instant until another event
//@props C10,C12
pub proof fn lemma_hearsay_questionable(h: int, t: int)
    requires h <= t
    ensures f_status(f_hearsay(h), t) is Questionable // @C10.hearsay_questionable
{}
// (d) not good + two consecutive unanswered queries ==> bad; bad is stable under time, queries sent and received
//@props C10
pub proof fn lemma_two_unanswered(f: F, t1: int, t2: int, t3: int)
    requires t1 <= t2 <= t3, !(f_status(f, t1) is Good), !(f_status(step(f, Ev::QuerySent, t1), t2) is Good)
    ensures f_status(step(step(f, Ev::QuerySent, t1), Ev::QuerySent, t2), t3) is Bad // @C10.two_unanswered_bad
{}
//@props C10
pub proof fn lemma_bad_stable(f: F, e: Ev, t: int, t2: int)
    requires f_status(f, t) is Bad, t <= t2, e is QuerySent || e is QueryRecv
    ensures f_status(step(f, e, t), t2) is Bad, f_status(f, t2) is Bad // @C10.bad_stable
{}
// (e) any accepted answer makes it good immediately (and for the next 15 minutes)
//@props C10
pub proof fn lemma_answer_good(f: F, t: int, t2: int)
    requires t <= t2 < t + Q15()
    ensures f_status(step(f, Ev::Answer, t), t2) is Good // @C10.answer_good_immediately
{}
// the only other way out of Bad: being named again re-admits the contact as a *fresh* questionable entry
//@props C10
pub proof fn lemma_bad_hearsay(f: F, t: int)
    requires f_status(f, t) is Bad
    ensures f_status(step(f, Ev::Hearsay, t), t) is Questionable, step(f, Ev::Hearsay, t).rr == 0
{}
// a hearsay mention never promotes a record to good, and never touches a live record
//@props C10,C12
pub proof fn lemma_hearsay_never_good(f: F, t: int)
    ensures f_status(step(f, Ev::Hearsay, t), t) is Good ==> f_status(f, t) is Good, // @C12.hearsay_never_good
        !(f_status(f, t) is Bad) ==> step(f, Ev::Hearsay, t) == f,
{}
// "at all times" from "after every operation": Good can only decay, Bad (by counter) never heals, with time alone
//@props C10,C08
pub proof fn lemma_time_monotone(f: F, t: int, t2: int)
    requires t <= t2
    ensures rank(f_status(f, t2)) <= rank(f_status(f, t)) // @C10.time_only_decays
{}

} // verus!
fn main() {}
