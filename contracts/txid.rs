//@include prelude/head.rs
//@include inc/txid_body.rs
} // verus!
fn main() {}
