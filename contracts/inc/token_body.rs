
// ================= token.rs =================
//@begin const src/token.rs - REFRESH_INTERVAL
pub exec const REFRESH_INTERVAL: Duration ensures dur_nanos(REFRESH_INTERVAL) == 600_000_000_000 { Duration::from_secs(10 * 60) }
//@end

//@begin type src/token.rs - struct Token
#[derive(Structural, Copy, Clone, PartialEq, Eq)]
pub struct Token {
    pub token: [u8; INFO_HASH_LEN],
}
//@end

//@begin type src/token.rs - struct TokenStore
#[derive(Copy, Clone)]
pub struct TokenStore {
    pub curr_secret: u32,
    pub last_secret: u32,
    pub last_refresh: Instant,
}
//@end

/// SHA-1 over (address octets ++ big-endian secret).  ASSUMED (cryptographic): treated as an uninterpreted function;
/// the buffer layout handed to SHA-1 is proved by the Kani harnesses token_buffer_v4 / token_buffer_v6.
pub uninterp spec fn H4(a: Ipv4Addr, secret: u32) -> Token;
pub uninterp spec fn H6(a: Ipv6Addr, secret: u32) -> Token;
pub open spec fn H(addr: IpAddr, secret: u32) -> Token {
    match addr { IpAddr::V4(a) => H4(a, secret), IpAddr::V6(a) => H6(a, secret) }
}

// proved-by: kx/token_buffer_v4 (the exact 8-byte buffer octets(ip) ++ be32(secret) reaches InfoHash::sha1 and its digest is the token)
#[verifier::external_body]
pub fn generate_token_from_addr_v4(v4_addr: Ipv4Addr, secret: u32) -> (t: Token) ensures t == H4(v4_addr, secret) { unimplemented!() }
// proved-by: kx/token_buffer_v6
#[verifier::external_body]
pub fn generate_token_from_addr_v6(v6_addr: Ipv6Addr, secret: u32) -> (t: Token) ensures t == H6(v6_addr, secret) { unimplemented!() }

// ---------- abstract token-store state (times in nanoseconds; interval I = 600 s) ----------
pub struct TS { pub curr: u32, pub last: u32, pub lr: int }
/// 10 minutes -- from the statement
pub open spec fn I() -> int { 600_000_000_000int }
pub open spec fn intervals(lr: int, now: int) -> int { if now >= lr { ((now - lr) / 1_000_000_000) / 600 } else { 0 } }
/// lazy rotation at time `now`, drawing fresh secrets f1 (current) and f2 (previous)
pub open spec fn step(s: TS, now: int, f1: u32, f2: u32) -> TS {
    let k = intervals(s.lr, now);
    if k == 0 { s } else if k == 1 { TS { curr: f1, last: s.curr, lr: now } } else { TS { curr: f1, last: f2, lr: now } }
}
pub open spec fn accepts(s: TS, x: u32) -> bool { x == s.curr || x == s.last }

impl TokenStore {
    pub open spec fn view(&self) -> TS { TS { curr: self.curr_secret, last: self.last_secret, lr: inst_nanos(self.last_refresh) } }

//@begin fn src/token.rs impl:TokenStore new props=C06,C01
    pub fn new() -> (r: TokenStore)
        ensures r.view().lr == clock(),
    {
        // We cant just use a placeholder for the last secret as that would allow external
        // nodes to exploit recently started dhts. Instead, just generate another placeholder
        // secret for the last secret with the assumption that we wont get a valid announce
        // under that secret. We could go the option route but that isnt as clean.
        let curr_secret = rand::random::<u32>();
        let last_secret = rand::random::<u32>();
        let last_refresh = Instant::now();

        TokenStore {
            curr_secret,
            last_secret,
            last_refresh,
        }
    }
//@end

//@begin fn src/token.rs impl:TokenStore checkout props=C06,C01
    pub fn checkout(&mut self, addr: IpAddr) -> (t: Token)
        ensures exists|f1: u32, f2: u32| final(self).view() == #[trigger] step(old(self).view(), clock(), f1, f2), // @C06.rotation_is_lazy_step @C01.rotation_is_lazy_step
            t == H(addr, final(self).curr_secret), // @C06.token_bound_to_ip_and_current_secret @C01.token_bound_to_ip_and_current_secret
    {
        self.refresh_check();

        generate_token_from_addr(addr, self.curr_secret)
    }
//@end

//@begin fn src/token.rs impl:TokenStore checkin props=C06,C01
    pub fn checkin(&mut self, addr: IpAddr, token: Token) -> (r: bool)
        ensures exists|f1: u32, f2: u32| final(self).view() == #[trigger] step(old(self).view(), clock(), f1, f2), // @C06.rotation_is_lazy_step @C01.rotation_is_lazy_step
            r == (token == H(addr, final(self).curr_secret) || token == H(addr, final(self).last_secret)), // @C06.accept_iff_current_or_previous_secret_for_this_ip @C01.accept_iff_current_or_previous_secret_for_this_ip
    {
        self.refresh_check();

        validate_token_from_addr(addr, token, self.curr_secret, self.last_secret)
    }
//@end

//@begin fn src/token.rs impl:TokenStore refresh_check props=C06,C01
    pub fn refresh_check(&mut self)
        ensures exists|f1: u32, f2: u32| final(self).view() == #[trigger] step(old(self).view(), clock(), f1, f2), // @C06.rotation_is_lazy_step @C01.rotation_is_lazy_step
    {
        match intervals_passed(self.last_refresh) {
            0 => (),
            1 => {
                self.last_secret = self.curr_secret;
                self.curr_secret = rand::random::<u32>();
                self.last_refresh = Instant::now();
            }
            _ => {
                self.last_secret = rand::random::<u32>();
                self.curr_secret = rand::random::<u32>();
                self.last_refresh = Instant::now();
            }
        };
        proof {
            assert(self.view() == step(old(self).view(), clock(), self.curr_secret, self.last_secret));
        }
    }
//@end
}

//@begin fn src/token.rs - intervals_passed props=C06,C01
pub fn intervals_passed(last_refresh: Instant) -> (r: u64)
    ensures r == intervals(inst_nanos(last_refresh), clock()), // @C06.interval_count
{
    broadcast use inst_sub_ax;
    let curr_time = Instant::now();
    let diff_time = curr_time - last_refresh;

    diff_time.as_secs() / REFRESH_INTERVAL.as_secs()
}
//@end

//@begin fn src/token.rs - generate_token_from_addr props=C06,C01
pub fn generate_token_from_addr(addr: IpAddr, secret: u32) -> (t: Token)
    ensures t == H(addr, secret),
{
    match addr {
        IpAddr::V4(v4) => generate_token_from_addr_v4(v4, secret),
        IpAddr::V6(v6) => generate_token_from_addr_v6(v6, secret),
    }
}
//@end

//@begin fn src/token.rs - validate_token_from_addr props=C06,C01
pub fn validate_token_from_addr(addr: IpAddr, token: Token, secret_one: u32, secret_two: u32) -> (r: bool)
    ensures r == (token == H(addr, secret_one) || token == H(addr, secret_two)), // @C06.validated_against_both_secrets_of_this_ip
{
    match addr {
        IpAddr::V4(v4) => {
            validate_token_from_addr_v4(v4, token, secret_one)
                || validate_token_from_addr_v4(v4, token, secret_two)
        }
        IpAddr::V6(v6) => {
            validate_token_from_addr_v6(v6, token, secret_one)
                || validate_token_from_addr_v6(v6, token, secret_two)
        }
    }
}
//@end

//@begin fn src/token.rs - validate_token_from_addr_v4 props=C06,C01
pub fn validate_token_from_addr_v4(v4_addr: Ipv4Addr, token: Token, secret: u32) -> (r: bool)
    ensures r == (token == H4(v4_addr, secret)),
{
    generate_token_from_addr_v4(v4_addr, secret) == token
}
//@end

//@begin fn src/token.rs - validate_token_from_addr_v6 props=C06,C01
pub fn validate_token_from_addr_v6(v6_addr: Ipv6Addr, token: Token, secret: u32) -> (r: bool)
    ensures r == (token == H6(v6_addr, secret)),
{
    generate_token_from_addr_v6(v6_addr, secret) == token
}
//@end

// ================= C06: history lemmas =================
// x = the secret a token was issued under at time t0.  The invariant is established by the issuing checkout
// and preserved by every later checkout/checkin (each performs `step` with fresh secrets) at any later time.
pub open spec fn tinv(s: TS, x: u32, t0: int, now: int) -> bool {
    now >= t0 && s.lr <= now && (
      (s.curr == x && s.lr <= t0 && t0 - s.lr < I())                                        // still current: no rotation since issue
   || (s.curr != x && s.last == x && t0 < s.lr && s.lr < t0 + 2 * I())                      // rotated exactly once, at lr
   || (s.curr != x && s.last != x && now > t0 + I()))                                       // gone -- impossible within 10 minutes
}
//@props C06
pub proof fn lemma_div(a: int)
    requires a >= 0
    ensures ((a / 1_000_000_000) / 600 == 0) <==> a < I(),
        ((a / 1_000_000_000) / 600 <= 1) <==> a < 2 * I(),
{
    assert((a / 1_000_000_000) / 600 == 0 ==> a < I()) by (nonlinear_arith) requires a >= 0;
    assert((a / 1_000_000_000) / 600 <= 1 ==> a < 2 * I()) by (nonlinear_arith) requires a >= 0;
    assert(a >= I() ==> (a / 1_000_000_000) / 600 >= 1) by (nonlinear_arith) requires a >= 0;
    assert(a >= 2 * I() ==> (a / 1_000_000_000) / 600 >= 2) by (nonlinear_arith) requires a >= 0;
    assert(a < I() ==> (a / 1_000_000_000) / 600 == 0) by (nonlinear_arith) requires a >= 0;
    assert(a < 2 * I() ==> (a / 1_000_000_000) / 600 <= 1) by (nonlinear_arith) requires a >= 0;
}
/// issuing: the checkout at time t0 hands out H(ip, curr') and establishes the invariant for x = curr'
//@props C06
pub proof fn lemma_issue(s: TS, t0: int, f1: u32, f2: u32)
    requires s.lr <= t0
    ensures ({ let s2 = step(s, t0, f1, f2); tinv(s2, s2.curr, t0, t0) })
{
    lemma_div(t0 - s.lr);
}
/// any later checkout/checkin at time t2 (fresh secrets differ from x: ASSUMED, probability 2^-32 per draw)
//@props C06
pub proof fn lemma_tstep(s: TS, x: u32, t0: int, t1: int, t2: int, f1: u32, f2: u32)
    requires tinv(s, x, t0, t1), t1 <= t2, f1 != x, f2 != x
    ensures tinv(step(s, t2, f1, f2), x, t0, t2)
{
    lemma_div(t2 - s.lr);
}
/// valid for at least 10 minutes, whatever other traffic (= any number of steps) happened in between
//@props C06
pub proof fn lemma_valid_10min(s: TS, x: u32, t0: int, now: int)
    requires tinv(s, x, t0, now), now - t0 <= I()
    ensures accepts(s, x) // @C06.valid_at_least_10_minutes @C01.valid_at_least_10_minutes
{}
/// dead by 30 minutes: the checkin at time `now` first performs step, then validates
//@props C06
pub proof fn lemma_dead_30min(s: TS, x: u32, t0: int, t1: int, now: int, f1: u32, f2: u32)
    requires tinv(s, x, t0, t1), t1 <= now, now - t0 >= 3 * I(), f1 != x, f2 != x
    ensures !accepts(step(s, now, f1, f2), x) // @C06.dead_by_30_minutes
{
    lemma_div(now - s.lr);
}
/// never accepted from a different IP, nor under a secret it was not issued under (ASSUMED: H is injective on the inputs that occur)
//@props C06
pub proof fn lemma_other_ip_refused(s: TS, ip: IpAddr, other: IpAddr, x: u32)
    requires ip != other,
        forall|a: IpAddr, b: IpAddr, p: u32, q: u32| #[trigger] H(a, p) == #[trigger] H(b, q) ==> a == b && p == q,
    ensures !(H(ip, x) == H(other, s.curr) || H(ip, x) == H(other, s.last)) // @C06.never_accepted_from_other_ip
{}


// ---------- Token construction from wire bytes ----------
//@begin type src/info_hash.rs - struct LengthError
pub struct LengthError;
//@end
impl Token {
    // proved-by: kx/token_new_len (accepts exactly 20 bytes and keeps them)
    #[verifier::external_body]
    pub fn new(bytes: &[u8]) -> (r: Result<Self, LengthError>)
        ensures r is Ok <==> bytes@.len() == 20, r is Ok ==> r->Ok_0.token@ == bytes@
    { unimplemented!() }
}
impl AsRef<[u8]> for Token {
//@begin fn src/token.rs impl:AsRef<[u8]>@for@Token as_ref
    fn as_ref(&self) -> (r: &[u8]) ensures r@ == self.token@ {
        &self.token
    }
//@end
}
