// TRUSTED: std contracts not in vstd
pub assume_specification<'a, K, V, S, A, Q> [std::collections::HashMap::<K, V, S, A>::get_mut] (m: &'a mut std::collections::HashMap<K, V, S, A>, k: &Q) -> (r: std::option::Option<&'a mut V>)
    where
    A: std::alloc::Allocator,
    K: std::cmp::Eq + std::hash::Hash + std::borrow::Borrow<Q>,
    Q: std::marker::MetaSized + std::hash::Hash + std::cmp::Eq + ?Sized,
    S: std::hash::BuildHasher,
    ensures obeys_key_model::<K>() && builds_valid_hashers::<S>() ==> match r {
            Some(v) => contains_borrowed_key(old(m)@, k) && maps_borrowed_key_to_value(old(m)@, k, *v)
                && contains_borrowed_key(final(m)@, k) && maps_borrowed_key_to_value(final(m)@, k, *final(v))
                && (forall|rest: Map<K, V>| #[trigger] borrowed_key_removed(old(m)@, rest, k) ==> borrowed_key_removed(final(m)@, rest, k)),
            None => !contains_borrowed_key(old(m)@, k) && final(m)@ == old(m)@,
        };

// trusted: Vec::retain keeps exactly the elements for which the closure returned true, in order
pub open spec fn retained<T>(o: Seq<T>, n: Seq<T>, pred: spec_fn(T) -> bool) -> bool { n == o.filter(pred) }
pub assume_specification<T, A, F> [Vec::<T, A>::retain] (v: &mut Vec<T, A>, f: F)
    where A: std::alloc::Allocator, F: FnMut(&T) -> bool,
    requires forall|i: int| 0 <= i < old(v).len() ==> call_requires(f, (&old(v)[i],)),
    ensures exists|pred: spec_fn(T) -> bool| #[trigger] retained(old(v)@, final(v)@, pred)
        && (forall|i: int| 0 <= i < old(v).len() ==> call_ensures(f, (&#[trigger] old(v)@[i],), pred(old(v)@[i])));



// verified stand-in for `vec.into_iter().filter(f).collect()` with the exact filter semantics (rule R-fcollect;
// vstd's native adapter specs give membership but not completeness)
pub open spec fn filtered<T>(o: Seq<T>, n: Seq<T>, pred: spec_fn(T) -> bool) -> bool { n == o.filter(pred) }
pub open spec fn pred_of<T, F: Fn(&T) -> bool>(f: F) -> spec_fn(T) -> bool { |x: T| call_ensures(f, (&x,), true) }
pub fn vx_filter_collect<T: Copy, F: Fn(&T) -> bool>(v: Vec<T>, f: F) -> (r: Vec<T>)
    requires forall|x: T| call_requires(f, (&x,)),
        forall|x: T, b1: bool, b2: bool| call_ensures(f, (&x,), b1) && call_ensures(f, (&x,), b2) ==> b1 == b2,
    ensures exists|pred: spec_fn(T) -> bool| #[trigger] filtered(v@, r@, pred)
        && (forall|i: int| 0 <= i < v@.len() ==> call_ensures(f, (&#[trigger] v@[i],), pred(v@[i]))),
{
    let mut out: Vec<T> = Vec::new();
    let mut i: usize = 0;
    assert(v@.take(0) =~= Seq::<T>::empty());
    while i < v.len()
        invariant i <= v.len(), out@ == v@.take(i as int).filter(pred_of(f)),
            forall|j: int| 0 <= j < i ==> call_ensures(f, (&#[trigger] v@[j],), pred_of(f)(v@[j])),
            forall|x: T| call_requires(f, (&x,)),
            forall|x: T, b1: bool, b2: bool| call_ensures(f, (&x,), b1) && call_ensures(f, (&x,), b2) ==> b1 == b2,
        decreases v.len() - i,
    {
        let x = v[i];
        let keep = f(&x);
        proof {
            reveal_with_fuel(Seq::filter, 2);
            assert(v@.take(i as int + 1) =~= v@.take(i as int).push(x));
            assert(v@.take(i as int).push(x).drop_last() =~= v@.take(i as int));
            assert(pred_of(f)(x) == keep);
        }
        if keep { out.push(x); }
        i += 1;
    }
    assert(v@.take(v.len() as int) =~= v@);
    assert(filtered(v@, out@, pred_of(f)));
    out
}

// ------------------------------------------------------------------ storage.rs items
//@begin const src/storage.rs - EXPIRATION_TIME
pub exec const EXPIRATION_TIME: Duration ensures dur_nanos(EXPIRATION_TIME) == 86_400_000_000_000 { Duration::from_secs(24 * 60 * 60) }
//@end
//@begin type src/storage.rs - struct ItemExpiration
pub struct ItemExpiration {
    pub address: SocketAddr,
    pub inserted: Instant,
    pub info_hash: InfoHash,
}
//@end
// TRUSTED: derived Clone is field-wise
impl Clone for ItemExpiration { #[verifier::external_body] fn clone(&self) -> (r: Self) ensures r == *self { unimplemented!() } }
//@begin type src/storage.rs - struct AnnounceItem
pub struct AnnounceItem {
    pub expiration: ItemExpiration,
}
//@end

pub type Key = (InfoHash, SocketAddr);
pub open spec fn ekey(e: ItemExpiration) -> Key { (e.info_hash, e.address) }
pub open spec fn ikey(a: AnnounceItem) -> Key { ekey(a.expiration) }
pub open spec fn DAY() -> int { 86_400_000_000_000int }
pub open spec fn expired_at(e: ItemExpiration, now: int) -> bool { now - inst_nanos(e.inserted) >= DAY() }

impl PartialEqSpecImpl for ItemExpiration {
    open spec fn obeys_eq_spec() -> bool { true }
    open spec fn eq_spec(&self, other: &ItemExpiration) -> bool { ekey(*self) == ekey(*other) }
}
impl PartialEq for ItemExpiration {
//@begin fn src/storage.rs impl:PartialEq@for@ItemExpiration eq
    fn eq(&self, other: &ItemExpiration) -> bool {
        self.address() == other.address() && self.info_hash() == other.info_hash()
    }
//@end
}
impl PartialEqSpecImpl for AnnounceItem {
    open spec fn obeys_eq_spec() -> bool { true }
    open spec fn eq_spec(&self, other: &AnnounceItem) -> bool { ikey(*self) == ikey(*other) }
}
// TRUSTED: derived PartialEq on AnnounceItem compares its single field with ItemExpiration::eq
impl PartialEq for AnnounceItem { fn eq(&self, other: &AnnounceItem) -> bool { self.expiration == other.expiration } }

impl ItemExpiration {
//@begin fn src/storage.rs impl:ItemExpiration new
    pub fn new(info_hash: InfoHash, address: SocketAddr) -> (r: ItemExpiration)
        ensures ekey(r) == (info_hash, address), inst_nanos(r.inserted) == clock()
    {
        ItemExpiration {
            address,
            inserted: Instant::now(),
            info_hash,
        }
    }
//@end

//@begin fn src/storage.rs impl:ItemExpiration is_expired
    pub fn is_expired(&self, now: Instant) -> (r: bool)
        ensures r == expired_at(*self, inst_nanos(now))
    {
        broadcast use inst_sub_ax, duration_ord_ax;
        now - self.inserted >= EXPIRATION_TIME
    }
//@end

//@begin fn src/storage.rs impl:ItemExpiration info_hash
    pub fn info_hash(&self) -> (r: InfoHash) ensures r == self.info_hash {
        self.info_hash
    }
//@end

//@begin fn src/storage.rs impl:ItemExpiration address
    pub fn address(&self) -> (r: SocketAddr) ensures r == self.address {
        self.address
    }
//@end
}

impl AnnounceItem {
//@begin fn src/storage.rs impl:AnnounceItem new
    pub fn new(info_hash: InfoHash, address: SocketAddr) -> (r: AnnounceItem)
        ensures ikey(r) == (info_hash, address), inst_nanos(r.expiration.inserted) == clock()
    {
        AnnounceItem {
            expiration: ItemExpiration::new(info_hash, address),
        }
    }
//@end

//@begin fn src/storage.rs impl:AnnounceItem expiration
    pub fn expiration(&self) -> (r: ItemExpiration) ensures r == self.expiration {
        self.expiration.clone()
    }
//@end

//@begin fn src/storage.rs impl:AnnounceItem address
    pub fn address(&self) -> (r: SocketAddr) ensures r == self.expiration.address {
        self.expiration.address()
    }
//@end

//@begin fn src/storage.rs impl:AnnounceItem info_hash
    pub fn info_hash(&self) -> (r: InfoHash) ensures r == self.expiration.info_hash {
        self.expiration.info_hash()
    }
//@end
}

// source index of the i-th element of s.filter(p)
pub open spec fn fsrc<A>(s: Seq<A>, p: spec_fn(A) -> bool, i: int) -> int
    decreases s.len()
{
    if s.len() == 0 { 0 } else {
        let d = s.drop_last();
        if p(s.last()) && i == d.filter(p).len() { s.len() - 1 } else { fsrc(d, p, i) }
    }
}
// position in s.filter(p) of the source element j (meaningful when p(s[j]))
pub open spec fn fdst<A>(s: Seq<A>, p: spec_fn(A) -> bool, j: int) -> int
    decreases s.len()
{
    if s.len() == 0 { 0 } else {
        let d = s.drop_last();
        if j == s.len() - 1 { d.filter(p).len() as int } else { fdst(d, p, j) }
    }
}

pub proof fn lemma_fsrc<A>(s: Seq<A>, p: spec_fn(A) -> bool, i: int)
    requires 0 <= i < s.filter(p).len()
    ensures 0 <= fsrc(s, p, i) < s.len(), s[fsrc(s, p, i)] == s.filter(p)[i], p(s.filter(p)[i]), s.filter(p).len() <= s.len()
    decreases s.len()
{
    reveal_with_fuel(Seq::filter, 2);
    if s.len() > 0 {
        let d = s.drop_last();
        if p(s.last()) && i == d.filter(p).len() {
            if d.filter(p).len() > 0 { lemma_fsrc(d, p, 0); }
        } else {
            lemma_fsrc(d, p, i);
        }
    }
}

pub proof fn lemma_flen<A>(s: Seq<A>, p: spec_fn(A) -> bool)
    ensures s.filter(p).len() <= s.len()
    decreases s.len()
{
    reveal_with_fuel(Seq::filter, 2);
    if s.len() > 0 { lemma_flen(s.drop_last(), p); }
}

pub proof fn lemma_fsrc_mono<A>(s: Seq<A>, p: spec_fn(A) -> bool, i1: int, i2: int)
    requires 0 <= i1 < i2 < s.filter(p).len()
    ensures fsrc(s, p, i1) < fsrc(s, p, i2)
    decreases s.len()
{
    reveal_with_fuel(Seq::filter, 2);
    if s.len() > 0 {
        let d = s.drop_last();
        if p(s.last()) && i2 == d.filter(p).len() {
            lemma_fsrc(d, p, i1);
        } else {
            lemma_fsrc_mono(d, p, i1, i2);
        }
    }
}

pub proof fn lemma_fdst<A>(s: Seq<A>, p: spec_fn(A) -> bool, j: int)
    requires 0 <= j < s.len(), p(s[j])
    ensures 0 <= fdst(s, p, j) < s.filter(p).len(), s.filter(p)[fdst(s, p, j)] == s[j]
    decreases s.len()
{
    reveal_with_fuel(Seq::filter, 2);
    let d = s.drop_last();
    if j == s.len() - 1 {
    } else {
        lemma_fdst(d, p, j);
    }
}

pub proof fn lemma_filter_all<A>(s: Seq<A>, p: spec_fn(A) -> bool)
    requires forall|j: int| 0 <= j < s.len() ==> p(#[trigger] s[j])
    ensures s.filter(p) == s
    decreases s.len()
{
    reveal_with_fuel(Seq::filter, 2);
    if s.len() > 0 {
        let d = s.drop_last();
        assert forall|j: int| 0 <= j < d.len() implies p(#[trigger] d[j]) by { assert(d[j] == s[j]); }
        lemma_filter_all(d, p);
        assert(s.filter(p) =~= s);
    }
}

pub proof fn lemma_filter_some_removed<A>(s: Seq<A>, p: spec_fn(A) -> bool, j: int)
    requires 0 <= j < s.len(), !p(s[j])
    ensures s.filter(p).len() < s.len()
    decreases s.len()
{
    reveal_with_fuel(Seq::filter, 2);
    let d = s.drop_last();
    lemma_flen(d, p);
    if j < s.len() - 1 { lemma_filter_some_removed(d, p, j); }
}

// ------------------------------------------------------------------ specs of the store
pub open spec fn e_nodup(s: Seq<ItemExpiration>) -> bool { forall|i: int, j: int| 0 <= i < j < s.len() ==> ekey(#[trigger] s[i]) != ekey(#[trigger] s[j]) }
pub open spec fn e_sorted(s: Seq<ItemExpiration>) -> bool { forall|i: int, j: int| 0 <= i < j < s.len() ==> inst_nanos((#[trigger] s[i]).inserted) <= inst_nanos((#[trigger] s[j]).inserted) }
pub open spec fn e_past(s: Seq<ItemExpiration>) -> bool { forall|i: int| 0 <= i < s.len() ==> inst_nanos((#[trigger] s[i]).inserted) <= clock() }
pub open spec fn e_idx(s: Seq<ItemExpiration>, k: Key, i: int) -> bool { 0 <= i < s.len() && ekey(s[i]) == k }
pub open spec fn e_has(s: Seq<ItemExpiration>, k: Key) -> bool { exists|i: int| #[trigger] e_idx(s, k, i) }
pub open spec fn l_idx(l: Seq<AnnounceItem>, k: Key, j: int) -> bool { 0 <= j < l.len() && ikey(l[j]) == k }
pub open spec fn l_has(l: Seq<AnnounceItem>, k: Key) -> bool { exists|j: int| #[trigger] l_idx(l, k, j) }
pub open spec fn l_ok(l: Seq<AnnounceItem>, h: InfoHash) -> bool {
    l.len() > 0
    && (forall|j: int| 0 <= j < l.len() ==> (#[trigger] l[j]).expiration.info_hash == h)
    && (forall|i: int, j: int| 0 <= i < j < l.len() ==> ikey(#[trigger] l[i]) != ikey(#[trigger] l[j]))
}
pub open spec fn st_has(m: Map<InfoHash, Vec<AnnounceItem>>, k: Key) -> bool { m.contains_key(k.0) && l_has(m[k.0]@, k) }
pub open spec fn st_ok(m: Map<InfoHash, Vec<AnnounceItem>>) -> bool { forall|h: InfoHash| #[trigger] m.contains_key(h) ==> l_ok(m[h]@, h) }


pub proof fn lemma_filter_ext<A>(s: Seq<A>, p: spec_fn(A) -> bool, q: spec_fn(A) -> bool)
    requires forall|i: int| 0 <= i < s.len() ==> p(#[trigger] s[i]) == q(s[i])
    ensures s.filter(p) == s.filter(q)
    decreases s.len()
{
    reveal_with_fuel(Seq::filter, 2);
    if s.len() > 0 {
        let d = s.drop_last();
        assert forall|i: int| 0 <= i < d.len() implies p(#[trigger] d[i]) == q(d[i]) by { assert(d[i] == s[i]); }
        lemma_filter_ext(d, p, q);
        assert(p(s.last()) == q(s.last())) by { assert(s.last() == s[s.len() - 1]); }
    }
}
/// filtering a duplicate-free sequence: membership is exact and the result is duplicate-free
pub proof fn lemma_filter_members<A>(s: Seq<A>, p: spec_fn(A) -> bool)
    requires forall|i: int, j: int| 0 <= i < j < s.len() ==> #[trigger] s[i] != #[trigger] s[j]
    ensures forall|a: A| #[trigger] s.filter(p).contains(a) <==> (s.contains(a) && p(a)),
        forall|i: int, j: int| 0 <= i < j < s.filter(p).len() ==> #[trigger] s.filter(p)[i] != #[trigger] s.filter(p)[j],
{
    let f = s.filter(p);
    assert forall|a: A| #[trigger] f.contains(a) <==> (s.contains(a) && p(a)) by {
        if f.contains(a) { let i = choose|i: int| 0 <= i < f.len() && f[i] == a; lemma_fsrc(s, p, i); }
        if s.contains(a) && p(a) { let j = choose|j: int| 0 <= j < s.len() && s[j] == a; lemma_fdst(s, p, j); }
    }
    assert forall|i1: int, i2: int| 0 <= i1 < i2 < f.len() implies #[trigger] f[i1] != #[trigger] f[i2] by {
        lemma_fsrc(s, p, i1); lemma_fsrc(s, p, i2); lemma_fsrc_mono(s, p, i1, i2);
    }
}
pub open spec fn live_at(now: int) -> spec_fn(ItemExpiration) -> bool { |e: ItemExpiration| !expired_at(e, now) }
pub open spec fn not_key(k: Key) -> spec_fn(ItemExpiration) -> bool { |e: ItemExpiration| ekey(e) != k }

pub proof fn lemma_e_filter(s: Seq<ItemExpiration>, p: spec_fn(ItemExpiration) -> bool)
    requires e_nodup(s), e_sorted(s), e_past(s)
    ensures e_nodup(s.filter(p)), e_sorted(s.filter(p)), e_past(s.filter(p)), s.filter(p).len() <= s.len(),
        forall|k: Key| #[trigger] e_has(s.filter(p), k) <==> exists|i: int| #[trigger] e_idx(s, k, i) && p(s[i]),
{
    let f = s.filter(p);
    lemma_flen(s, p);
    assert forall|i1: int, i2: int| 0 <= i1 < i2 < f.len() implies ekey(#[trigger] f[i1]) != ekey(#[trigger] f[i2])
        && inst_nanos(f[i1].inserted) <= inst_nanos(f[i2].inserted) by {
        lemma_fsrc(s, p, i1); lemma_fsrc(s, p, i2); lemma_fsrc_mono(s, p, i1, i2);
    }
    assert forall|i: int| 0 <= i < f.len() implies inst_nanos((#[trigger] f[i]).inserted) <= clock() by { lemma_fsrc(s, p, i); }
    assert forall|k: Key| #[trigger] e_has(f, k) <==> exists|i: int| #[trigger] e_idx(s, k, i) && p(s[i]) by {
        if e_has(f, k) {
            let i = choose|i: int| e_idx(f, k, i);
            lemma_fsrc(s, p, i);
            assert(e_idx(s, k, fsrc(s, p, i)));
        }
        if exists|i: int| #[trigger] e_idx(s, k, i) && p(s[i]) {
            let j = choose|i: int| #[trigger] e_idx(s, k, i) && p(s[i]);
            lemma_fdst(s, p, j);
            assert(e_idx(f, k, fdst(s, p, j)));
        }
    }
}

pub proof fn lemma_e_push(s: Seq<ItemExpiration>, x: ItemExpiration)
    ensures forall|k: Key| #[trigger] e_has(s.push(x), k) <==> (e_has(s, k) || ekey(x) == k)
{
    let t = s.push(x);
    assert forall|k: Key| #[trigger] e_has(t, k) <==> (e_has(s, k) || ekey(x) == k) by {
        if e_has(t, k) { let i = choose|i: int| e_idx(t, k, i); if i < s.len() { assert(e_idx(s, k, i)); } }
        if e_has(s, k) { let i = choose|i: int| e_idx(s, k, i); assert(e_idx(t, k, i)); }
        if ekey(x) == k { assert(e_idx(t, k, s.len() as int)); }
    }
}

pub open spec fn item_not_key(k: Key) -> spec_fn(AnnounceItem) -> bool { |a: AnnounceItem| ikey(a) != k }

pub proof fn lemma_l_filter(l: Seq<AnnounceItem>, p: spec_fn(AnnounceItem) -> bool, h: InfoHash)
    requires (forall|j: int| 0 <= j < l.len() ==> (#[trigger] l[j]).expiration.info_hash == h),
        (forall|i: int, j: int| 0 <= i < j < l.len() ==> ikey(#[trigger] l[i]) != ikey(#[trigger] l[j])),
    ensures (forall|j: int| 0 <= j < l.filter(p).len() ==> (#[trigger] l.filter(p)[j]).expiration.info_hash == h),
        (forall|i: int, j: int| 0 <= i < j < l.filter(p).len() ==> ikey(#[trigger] l.filter(p)[i]) != ikey(#[trigger] l.filter(p)[j])),
        forall|k: Key| #[trigger] l_has(l.filter(p), k) <==> exists|j: int| #[trigger] l_idx(l, k, j) && p(l[j]),
{
    let f = l.filter(p);
    assert forall|j: int| 0 <= j < f.len() implies (#[trigger] f[j]).expiration.info_hash == h by { lemma_fsrc(l, p, j); }
    assert forall|i1: int, i2: int| 0 <= i1 < i2 < f.len() implies ikey(#[trigger] f[i1]) != ikey(#[trigger] f[i2]) by {
        lemma_fsrc(l, p, i1); lemma_fsrc(l, p, i2); lemma_fsrc_mono(l, p, i1, i2);
    }
    assert forall|k: Key| #[trigger] l_has(f, k) <==> exists|j: int| #[trigger] l_idx(l, k, j) && p(l[j]) by {
        if l_has(f, k) { let i = choose|i: int| l_idx(f, k, i); lemma_fsrc(l, p, i); assert(l_idx(l, k, fsrc(l, p, i))); }
        if exists|j: int| #[trigger] l_idx(l, k, j) && p(l[j]) {
            let j = choose|j: int| #[trigger] l_idx(l, k, j) && p(l[j]);
            lemma_fdst(l, p, j); assert(l_idx(f, k, fdst(l, p, j)));
        }
    }
}

pub proof fn lemma_filter_none<A>(s: Seq<A>, p: spec_fn(A) -> bool)
    requires forall|j: int| 0 <= j < s.len() ==> !p(#[trigger] s[j])
    ensures s.filter(p).len() == 0
    decreases s.len()
{
    reveal_with_fuel(Seq::filter, 2);
    if s.len() > 0 {
        let d = s.drop_last();
        assert forall|j: int| 0 <= j < d.len() implies !p(#[trigger] d[j]) by { assert(d[j] == s[j]); }
        lemma_filter_none(d, p);
        assert(!p(s.last())) by { assert(s.last() == s[s.len() - 1]); }
    }
}

// a predicate that is false on a prefix and true on the rest selects exactly the rest
pub proof fn lemma_filter_suffix<A>(s: Seq<A>, p: spec_fn(A) -> bool, n: int)
    requires 0 <= n <= s.len(), forall|j: int| 0 <= j < n ==> !p(#[trigger] s[j]), forall|j: int| n <= j < s.len() ==> p(#[trigger] s[j])
    ensures s.filter(p) == s.subrange(n, s.len() as int)
    decreases s.len()
{
    reveal_with_fuel(Seq::filter, 2);
    if s.len() == n {
        lemma_filter_none(s, p);
        assert(s.filter(p) =~= s.subrange(n, s.len() as int));
    } else {
        let d = s.drop_last();
        assert forall|j: int| 0 <= j < n implies !p(#[trigger] d[j]) by { assert(d[j] == s[j]); }
        assert forall|j: int| n <= j < d.len() implies p(#[trigger] d[j]) by { assert(d[j] == s[j]); }
        lemma_filter_suffix(d, p, n);
        assert(p(s.last())) by { assert(s.last() == s[s.len() - 1]); }
        assert(s.filter(p) =~= s.subrange(n, s.len() as int));
    }
}

pub open spec fn r_idx(s: Seq<ItemExpiration>, k: Key, lo: int, i: int) -> bool { lo <= i < s.len() && ekey(s[i]) == k }
pub open spec fn r_has(s: Seq<ItemExpiration>, k: Key, lo: int) -> bool { exists|i: int| #[trigger] r_idx(s, k, lo, i) }

pub proof fn lemma_r_step(s: Seq<ItemExpiration>, lo: int)
    requires e_nodup(s), 0 <= lo < s.len()
    ensures ({ let lo1 = lo + 1; forall|k: Key| #[trigger] r_has(s, k, lo1) <==> (r_has(s, k, lo) && k != ekey(s[lo])) })
{
    let lo1 = lo + 1;
    assert forall|k: Key| #[trigger] r_has(s, k, lo1) <==> (r_has(s, k, lo) && k != ekey(s[lo])) by {
        if r_has(s, k, lo1) { let i = choose|i: int| r_idx(s, k, lo1, i); assert(r_idx(s, k, lo, i)); }
        if r_has(s, k, lo) && k != ekey(s[lo]) { let i = choose|i: int| r_idx(s, k, lo, i); assert(r_idx(s, k, lo1, i)); }
    }
}
pub proof fn lemma_r_zero(s: Seq<ItemExpiration>)
    ensures forall|k: Key| #[trigger] r_has(s, k, 0) <==> e_has(s, k)
{
    assert forall|k: Key| #[trigger] r_has(s, k, 0) <==> e_has(s, k) by {
        if r_has(s, k, 0) { let i = choose|i: int| r_idx(s, k, 0, i); assert(e_idx(s, k, i)); }
        if e_has(s, k) { let i = choose|i: int| e_idx(s, k, i); assert(r_idx(s, k, 0, i)); }
    }
}
pub proof fn lemma_r_suffix(s: Seq<ItemExpiration>, n: int)
    requires 0 <= n <= s.len()
    ensures forall|k: Key| #[trigger] r_has(s, k, n) <==> e_has(s.subrange(n, s.len() as int), k)
{
    let t = s.subrange(n, s.len() as int);
    assert forall|k: Key| #[trigger] r_has(s, k, n) <==> e_has(t, k) by {
        if r_has(s, k, n) { let i = choose|i: int| r_idx(s, k, n, i); assert(e_idx(t, k, i - n)); }
        if e_has(t, k) { let i = choose|i: int| e_idx(t, k, i); assert(r_idx(s, k, n, i + n)); }
    }
}

// verified stand-in for `opt.into_iter().flatten().map(f)` collected eagerly (rule R-eager)
pub fn vx_opt_vec_map<T, U, F: Fn(&T) -> U>(o: Option<&Vec<T>>, f: F) -> (r: Vec<U>)
    requires o is Some ==> forall|i: int| 0 <= i < o->0.len() ==> call_requires(f, (&o->0[i],)),
    ensures o is None ==> r@.len() == 0,
        o is Some ==> r@.len() == o->0@.len() && forall|i: int| 0 <= i < r@.len() ==> call_ensures(f, (&o->0[i],), #[trigger] r@[i]),
{
    let mut out: Vec<U> = Vec::new();
    if let Some(v) = o {
        let mut i: usize = 0;
        while i < v.len()
            invariant i <= v.len(), out@.len() == i, o == Some(v),
                forall|i: int| 0 <= i < v.len() ==> call_requires(f, (&v[i],)),
                forall|j: int| 0 <= j < i ==> call_ensures(f, (&v[j],), #[trigger] out@[j]),
            decreases v.len() - i,
        {
            out.push(f(&v[i]));
            i += 1;
        }
    }
    out
}

//@begin const src/storage.rs - MAX_ITEMS_STORED
pub const MAX_ITEMS_STORED: usize = 500;
//@end

//@begin type src/storage.rs - struct AnnounceStorage
pub struct AnnounceStorage {
    pub storage: HashMap<InfoHash, Vec<AnnounceItem>>,
    pub expires: Vec<ItemExpiration>,
}
//@end

// ---- verified helpers standing in for std adapters without a usable vstd spec
pub fn vx_any<T, F: Fn(&T) -> bool>(s: &Vec<T>, f: F) -> (r: bool)
    requires forall|i: int| 0 <= i < s.len() ==> call_requires(f, (&s[i],)),
    ensures r ==> exists|i: int| 0 <= i < s.len() && call_ensures(f, (&s[i],), true),
            !r ==> forall|i: int| 0 <= i < s.len() ==> call_ensures(f, (&s[i],), false),
{
    let mut i: usize = 0;
    while i < s.len()
        invariant i <= s.len(),
            forall|i: int| 0 <= i < s.len() ==> call_requires(f, (&s[i],)),
            forall|j: int| 0 <= j < i ==> call_ensures(f, (&s[j],), false),
        decreases s.len() - i,
    {
        if f(&s[i]) { return true; }
        i += 1;
    }
    false
}

pub fn vx_take_while_count<T, F: Fn(&T) -> bool>(s: &Vec<T>, f: F) -> (n: usize)
    requires forall|i: int| 0 <= i < s.len() ==> call_requires(f, (&s[i],)),
    ensures n <= s.len(),
        forall|j: int| 0 <= j < n ==> call_ensures(f, (&s[j],), true),
        n < s.len() ==> call_ensures(f, (&s[n as int],), false),
{
    let mut i: usize = 0;
    while i < s.len()
        invariant i <= s.len(),
            forall|i: int| 0 <= i < s.len() ==> call_requires(f, (&s[i],)),
            forall|j: int| 0 <= j < i ==> call_ensures(f, (&s[j],), true),
        decreases s.len() - i,
    {
        if !f(&s[i]) { return i; }
        i += 1;
    }
    i
}

// trusted: Vec::drain(0..n) yields the first n elements in order and leaves the rest
#[verifier::external_body]
pub fn vx_drain_prefix<T>(s: &mut Vec<T>, n: usize) -> (r: Vec<T>)
    requires n <= old(s).len()
    ensures r@ == old(s)@.subrange(0, n as int), final(s)@ == old(s)@.subrange(n as int, old(s).len() as int)
{ s.drain(0..n).collect() }

// verified stand-in for the entry()/Occupied/Vacant idiom (rule R-entry)
pub proof fn lemma_get_mut_frame(o: Map<InfoHash, Vec<AnnounceItem>>, n: Map<InfoHash, Vec<AnnounceItem>>, k: InfoHash)
    requires obeys_key_model::<InfoHash>(), o.contains_key(k), n.contains_key(k),
        forall|rest: Map<InfoHash, Vec<AnnounceItem>>| #[trigger] borrowed_key_removed(o, rest, &k) ==> borrowed_key_removed(n, rest, &k),
    ensures n == o.insert(k, n[k])
{
    broadcast use vstd::std_specs::hash::group_hash_axioms;
    assert(borrowed_key_removed(o, o.remove(k), &k));
    assert(n.remove(k) == o.remove(k));
    assert forall|kk: InfoHash| n.contains_key(kk) == o.insert(k, n[k]).contains_key(kk) by {
        if kk != k { assert(n.remove(k).contains_key(kk) == o.remove(k).contains_key(kk)); }
    }
    assert forall|kk: InfoHash| n.contains_key(kk) implies n[kk] == o.insert(k, n[k])[kk] by {
        if kk != k { assert(n.remove(k)[kk] == o.remove(k)[kk]); }
    }
    assert(n =~= o.insert(k, n[k]));
}

pub fn vx_entry_push(m: &mut HashMap<InfoHash, Vec<AnnounceItem>>, k: InfoHash, x: AnnounceItem)
    ensures final(m)@.contains_key(k), final(m)@ == old(m)@.insert(k, final(m)@[k]),
        final(m)@[k]@ == (if old(m)@.contains_key(k) { old(m)@[k]@.push(x) } else { seq![x] }),
{
    broadcast use vstd::std_specs::hash::group_hash_axioms, infohash_key_model;
    if let Some(v) = m.get_mut(&k) {
        v.push(x);
        proof { lemma_get_mut_frame(old(m)@, m@, k); }
    } else {
        let mut v = Vec::new();
        v.push(x);
        m.insert(k, v);
        proof { assert(m@ =~= old(m)@.insert(k, m@[k])); }
    }
}

/// the addresses stored for an info-hash, in list order
pub open spec fn items_of(s: AnnounceStorage, h: InfoHash) -> Seq<SocketAddr> {
    if s.storage@.contains_key(h) { Seq::new(s.storage@[h]@.len(), |i: int| s.storage@[h]@[i].expiration.address) } else { Seq::<SocketAddr>::empty() }
}
/// the entries younger than 24 h at time `now` (24 h from the statement)
pub open spec fn E0(s: AnnounceStorage, now: int) -> Seq<ItemExpiration> { s.expires@.filter(live_at(now)) }

impl AnnounceStorage {
    pub open spec fn wf(&self) -> bool {
        self.expires@.len() <= 500
        && e_nodup(self.expires@) && e_sorted(self.expires@) && e_past(self.expires@)
        && st_ok(self.storage@)
        && (forall|k: Key| #[trigger] e_has(self.expires@, k) <==> st_has(self.storage@, k))
    }

//@begin fn src/storage.rs impl:AnnounceStorage remove_expired_items props=C07,C01
    pub fn remove_expired_items(&mut self, curr_time: Instant)
        requires old(self).wf(), inst_nanos(curr_time) <= clock(),
        ensures final(self).wf(),
            final(self).expires@ == old(self).expires@.filter(live_at(inst_nanos(curr_time))), // @C07.expiry_exactly_24h @C01.expiry_exactly_24h
    {
        broadcast use vstd::std_specs::hash::group_hash_axioms, infohash_key_model;
        let ghost now = inst_nanos(curr_time);
        let ghost e_old = self.expires@;
        let num_expired_items = vx_take_while_count(&self
            .expires
            , |i: &ItemExpiration| -> (b: bool) ensures b == expired_at(*i, inst_nanos(curr_time)) { i.is_expired(curr_time) });

        // Remove the numbers of expired elements from the head of the list
        let drained = vx_drain_prefix(&mut self.expires, num_expired_items);
        let ghost n = num_expired_items as int;
        let ghost dseq = drained@;
        let ghost rest = self.expires@;
        proof {
            // sortedness: once an entry is live, all later ones are
            assert forall|j: int| n <= j < e_old.len() implies live_at(now)(#[trigger] e_old[j]) by {
                if n < e_old.len() { assert(!expired_at(e_old[n], now)); assert(inst_nanos(e_old[n].inserted) <= inst_nanos(e_old[j].inserted)); }
            }
            assert forall|j: int| 0 <= j < n implies !live_at(now)(#[trigger] e_old[j]) by {}
            lemma_filter_suffix(e_old, live_at(now), n);
            assert(rest == e_old.filter(live_at(now)));
            assert(dseq == e_old.subrange(0, n));
        }
        proof {
            lemma_r_zero(e_old);
            lemma_filter_ext(e_old, live_at(now), live_at(now));
            assert(rest =~= e_old.subrange(n, e_old.len() as int));
        }
        for item_expiration in it: drained
            invariant
                self.expires@ == rest, rest == e_old.subrange(n, e_old.len() as int), dseq == e_old.subrange(0, n), 0 <= n <= e_old.len(),
                e_nodup(e_old), e_sorted(e_old), e_past(e_old), e_old.len() <= 500,
                st_ok(self.storage@),
                0 <= it.index@ <= n,
                it.snapshot@.remaining() == dseq,
                forall|k: Key| #[trigger] st_has(self.storage@, k) <==> r_has(e_old, k, it.index@ as int),
                obeys_key_model::<InfoHash>(),
        {
            let ghost idx = it.index@ as int;
            let ghost pre = self.storage@;
            proof {
                assert(item_expiration == dseq[idx]);
                assert(dseq[idx] == e_old[idx]);
            }
            let ghost ke = ekey(item_expiration);
            let info_hash = item_expiration.info_hash();
            proof {
                assert(r_idx(e_old, ke, idx, idx));
                assert(st_has(pre, ke));
                assert(pre.contains_key(info_hash));
            }
            let ghost l = pre[info_hash]@;

            // Get a mutable reference to the list of contacts and remove all contacts that
            // are associated with the expiration (should only be one such contact).
            let remove_info_hash = if let Some(items) = self.storage.get_mut(&info_hash) {
                items.retain(|a: &AnnounceItem| -> (b: bool) ensures b == (ikey(*a) != ekey(item_expiration)) { a.expiration() != item_expiration });
                proof {
                    let pr = choose|pr: spec_fn(AnnounceItem) -> bool| #[trigger] retained(l, items@, pr)
                        && (forall|i: int| 0 <= i < l.len() ==> pr(#[trigger] l[i]) == (ikey(l[i]) != ke));
                    lemma_filter_ext(l, pr, item_not_key(ke));
                    assert(items@ == l.filter(item_not_key(ke)));
                }

                items.is_empty()
            } else {
                false
            };
            let ghost mid = self.storage@;
            let ghost l2 = l.filter(item_not_key(ke));
            proof {
                lemma_get_mut_frame(pre, mid, info_hash);
                assert(mid[info_hash]@ == l2);
                assert(remove_info_hash == (l2.len() == 0));
                assert(l_ok(l, info_hash));
                lemma_l_filter(l, item_not_key(ke), info_hash);
            }

            // If we drained the list of contacts completely, remove the info hash entry
            if remove_info_hash {
                self.storage.remove(&info_hash);
            }
            proof {
                let post = self.storage@;
                let h = info_hash;
                assert(post =~= (if l2.len() == 0 { pre.remove(h) } else { pre.insert(h, mid[h]) }));
                assert forall|hh: InfoHash| #[trigger] post.contains_key(hh) implies l_ok(post[hh]@, hh) by {
                    if hh != h { assert(pre.contains_key(hh)); assert(post[hh] == pre[hh]); }
                }
                lemma_r_step(e_old, idx);
                let idx1 = idx + 1;
                assert forall|k: Key| #[trigger] st_has(post, k) <==> r_has(e_old, k, idx1) by {
                    // induction hypothesis and step lemma, instantiated at k
                    assert(st_has(pre, k) <==> r_has(e_old, k, idx));
                    assert(r_has(e_old, k, idx1) <==> (r_has(e_old, k, idx) && k != ke));
                    if k.0 == h {
                        assert(pre.contains_key(h));
                        assert(st_has(pre, k) <==> l_has(l, k));
                        // l_has(l2,k) <==> l_has(l,k) && k != ke
                        if l_has(l2, k) {
                            let j = choose|j: int| #[trigger] l_idx(l, k, j) && item_not_key(ke)(l[j]);
                            assert(l_idx(l, k, j));
                            assert(k != ke);
                        }
                        if l_has(l, k) && k != ke {
                            let j = choose|j: int| l_idx(l, k, j);
                            assert(l_idx(l, k, j) && item_not_key(ke)(l[j]));
                            assert(l_has(l2, k));
                        }
                        assert(l_has(l2, k) <==> (l_has(l, k) && k != ke));
                        if l2.len() == 0 {
                            assert(!post.contains_key(h));
                            assert(!st_has(post, k));
                            if l_has(l2, k) { let j = choose|j: int| l_idx(l2, k, j); }
                            assert(!l_has(l2, k));
                        } else {
                            assert(post.contains_key(h) && post[h]@ == l2);
                            assert(st_has(post, k) <==> l_has(l2, k));
                        }
                    } else {
                        assert(k != ke);
                        assert(post.contains_key(k.0) == pre.contains_key(k.0));
                        if pre.contains_key(k.0) { assert(post[k.0] == pre[k.0]); }
                        assert(st_has(post, k) <==> st_has(pre, k));
                    }
                }
            }
        }
        proof {
            lemma_r_suffix(e_old, n);
            lemma_e_filter(e_old, live_at(now));
        }
    }
//@end

//@begin fn src/storage.rs impl:AnnounceStorage insert_contact props=C07,C05,C01
    pub fn insert_contact(&mut self, item: AnnounceItem) -> (r: Option<bool>)
        requires old(self).wf(), item.expiration.info_hash == ikey(item).0,
        ensures final(self).expires@ == old(self).expires@, st_ok(final(self).storage@),
            r == (if e_has(old(self).expires@, ikey(item)) { Some(true) } else if old(self).expires@.len() < 500 { Some(false) } else { None::<bool> }),
            r != Some(false) ==> final(self).storage@ == old(self).storage@,
            r == Some(false) ==> forall|k: Key| #[trigger] st_has(final(self).storage@, k) <==> (st_has(old(self).storage@, k) || k == ikey(item)),
    {
        broadcast use vstd::std_specs::hash::group_hash_axioms, infohash_key_model;
        let item_info_hash = item.info_hash();

        // Check if the contact is already in our list
        let already_in_list = if let Some(items) = self.storage.get_mut(&item_info_hash) {
            let vx_ret = vx_any(items, |a: &AnnounceItem| -> (b: bool) ensures b == (ikey(*a) == ikey(item)) { a == &item });
            let ghost found = vx_ret;
            proof {
                if found {
                    let i = choose|i: int| 0 <= i < items@.len() && ikey(items@[i]) == ikey(item);
                    assert(l_idx(items@, ikey(item), i));
                } else {
                    assert forall|j: int| !l_idx(items@, ikey(item), j) by {}
                }
                assert(found == l_has(items@, ikey(item)));
            }
            vx_ret
        } else {
            false
        };
        proof {
            if old(self).storage@.contains_key(item_info_hash) { lemma_get_mut_frame(old(self).storage@, self.storage@, item_info_hash); }
            assert(self.storage@ =~= old(self).storage@);
            assert(already_in_list == st_has(old(self).storage@, ikey(item)));
            assert(st_has(old(self).storage@, ikey(item)) == e_has(old(self).expires@, ikey(item)));
        }

        // Check if we need to insert it into the list and if we have room
        match (already_in_list, self.expires.len() < MAX_ITEMS_STORED) {
            (false, true) => {
                let ghost pre = self.storage@;
                // Place it into the appropriate list
                vx_entry_push(&mut self.storage, item_info_hash, item);
                proof {
                    let h = item_info_hash;
                    let post = self.storage@;
                    let kk = ikey(item);
                    // the touched list
                    let nl = post[h]@;
                    if pre.contains_key(h) {
                        let ol = pre[h]@;
                        assert(nl == ol.push(item));
                        assert(l_ok(ol, h));
                        assert forall|i: int, j: int| 0 <= i < j < nl.len() implies ikey(#[trigger] nl[i]) != ikey(#[trigger] nl[j]) by {
                            if j == nl.len() - 1 { assert(!l_idx(ol, kk, i)); }
                        }
                        assert(l_ok(nl, h));
                    } else {
                        assert(nl == seq![item]);
                        assert(l_ok(nl, h));
                    }
                    assert forall|hh: InfoHash| #[trigger] post.contains_key(hh) implies l_ok(post[hh]@, hh) by {
                        if hh != h { assert(pre.contains_key(hh)); assert(post[hh] == pre[hh]); }
                    }
                    assert forall|k: Key| #[trigger] st_has(post, k) <==> (st_has(pre, k) || k == kk) by {
                        if k.0 == h {
                            if st_has(post, k) {
                                let j = choose|j: int| l_idx(nl, k, j);
                                if j < nl.len() - 1 { assert(pre.contains_key(h)); assert(l_idx(pre[h]@, k, j)); }
                            }
                            if st_has(pre, k) {
                                let j = choose|j: int| l_idx(pre[h]@, k, j);
                                assert(l_idx(nl, k, j));
                            }
                            if k == kk { assert(l_idx(nl, k, nl.len() - 1)); }
                        } else {
                            assert(post.contains_key(k.0) == pre.contains_key(k.0));
                            if pre.contains_key(k.0) { assert(post[k.0] == pre[k.0]); }
                        }
                    }
                }

                Some(false)
            }
            (false, false) => None,
            (true, false) => Some(true),
            (true, true) => Some(true),
        }
    }
//@end

//@begin fn src/storage.rs impl:AnnounceStorage add props=C07,C05,C01
    pub fn add(&mut self, info_hash: InfoHash, address: SocketAddr, curr_time: Instant) -> (r: bool)
        requires old(self).wf(), inst_nanos(curr_time) <= clock(),
        ensures final(self).wf(), // @C07.store_invariant
            r == (e_has(E0(*old(self), inst_nanos(curr_time)), (info_hash, address)) || E0(*old(self), inst_nanos(curr_time)).len() < 500), // @C07.accepted_iff_already_stored_or_room @C05.announce_refused_only_when_the_store_is_full @C01.accepted_iff_already_stored_or_room
            !r ==> final(self).expires@ == E0(*old(self), inst_nanos(curr_time)), // @C07.refusal_evicts_nothing
            r ==> final(self).expires@.len() > 0 && ekey(final(self).expires@.last()) == (info_hash, address) && inst_nanos(final(self).expires@.last().inserted) == clock()
                    && final(self).expires@.drop_last() == E0(*old(self), inst_nanos(curr_time)).filter(not_key((info_hash, address))), // @C07.renewal_restarts_24h_without_duplicate @C01.renewal_restarts_24h_without_duplicate
    {
        // Clear out any old contacts that we have stored
        self.remove_expired_items(curr_time);
        let item = AnnounceItem::new(info_hash, address);
        let item_expiration = item.expiration();
        let ghost e0 = self.expires@;
        let ghost k = (info_hash, address);

        // Check if we already have the item and want to update it's expiration
        match self.insert_contact(item) {
            Some(true) => {
                self.expires.retain(|i: &ItemExpiration| -> (b: bool) ensures b == (ekey(*i) != ekey(item_expiration)) { i != &item_expiration });
                let ghost x1 = self.expires@;
                self.expires.push(item_expiration);
                proof {
                    let pr = choose|pr: spec_fn(ItemExpiration) -> bool| #[trigger] retained(e0, x1, pr)
                        && (forall|i: int| 0 <= i < e0.len() ==> pr(#[trigger] e0[i]) == (ekey(e0[i]) != k));
                    lemma_filter_ext(e0, pr, not_key(k));
                    let pr1 = not_key(k);
                    assert(x1 == e0.filter(pr1));
                    lemma_e_filter(e0, pr1);
                    let wi = choose|i: int| e_idx(e0, k, i);
                    assert(e_idx(e0, k, wi));
                    lemma_filter_some_removed(e0, pr1, wi);
                    let fin = self.expires@;
                    assert(fin == x1.push(item_expiration));
                    assert(fin.drop_last() =~= x1);
                    lemma_e_push(x1, item_expiration);
                    assert forall|i: int| 0 <= i < x1.len() implies ekey(#[trigger] x1[i]) != k && inst_nanos(x1[i].inserted) <= clock() by { lemma_fsrc(e0, pr1, i); }
                    assert(e_nodup(fin));
                    assert(e_sorted(fin));
                    assert(e_past(fin));
                    assert forall|key: Key| #[trigger] e_has(fin, key) <==> st_has(self.storage@, key) by {
                        if key != k {
                            if e_has(e0, key) { let i = choose|i: int| e_idx(e0, key, i); assert(e_idx(e0, key, i) && pr1(e0[i])); }
                        }
                    }
                }

                true
            }
            Some(false) => {
                self.expires.push(item_expiration);
                proof {
                    let fin = self.expires@;
                    assert(fin == e0.push(item_expiration));
                    assert(fin.drop_last() =~= e0);
                    lemma_e_push(e0, item_expiration);
                    assert forall|i: int| 0 <= i < e0.len() implies ekey(#[trigger] e0[i]) != k by { if ekey(e0[i]) == k { assert(e_idx(e0, k, i)); } }
                    assert(e_nodup(fin));
                    assert(e_sorted(fin));
                    assert(e_past(fin));
                    let pr1 = not_key(k);
                    assert forall|j: int| 0 <= j < e0.len() implies pr1(#[trigger] e0[j]) by {}
                    lemma_filter_all(e0, pr1);
                }

                true
            }
            None => false,
        }
    }
//@end

//@begin fn src/storage.rs impl:AnnounceStorage new props=C07,C01
    pub fn new() -> (r: AnnounceStorage)
        ensures r.wf(), r.expires@.len() == 0
    {
        let vx_ret = AnnounceStorage {
            storage: HashMap::new(),
            expires: Vec::new(),
        };
        let ghost r = vx_ret;
        proof {
            assert forall|k: Key| #[trigger] e_has(r.expires@, k) <==> st_has(r.storage@, k) by {
                if e_has(r.expires@, k) { let i = choose|i: int| e_idx(r.expires@, k, i); }
            }
        }
        vx_ret
    }
//@end

    /// Returns true if the item was added/it's existing expiration updated, false otherwise.
//@begin fn src/storage.rs impl:AnnounceStorage add_item props=C07,C05,C01
    pub fn add_item(&mut self, info_hash: InfoHash, address: SocketAddr) -> (r: bool)
        requires old(self).wf()
        ensures final(self).wf(), // @C07.store_invariant
            r == (e_has(E0(*old(self), clock()), (info_hash, address)) || E0(*old(self), clock()).len() < 500), // @C07.accepted_iff_already_stored_or_room @C01.accepted_iff_already_stored_or_room
            !r ==> final(self).expires@ == E0(*old(self), clock()), // @C07.refusal_evicts_nothing
            r ==> final(self).expires@.len() > 0 && ekey(final(self).expires@.last()) == (info_hash, address) && inst_nanos(final(self).expires@.last().inserted) == clock()
                    && final(self).expires@.drop_last() == E0(*old(self), clock()).filter(not_key((info_hash, address))), // @C07.renewal_restarts_24h_without_duplicate @C01.renewal_restarts_24h_without_duplicate
    {
        self.add(info_hash, address, Instant::now())
    }
//@end

//@begin fn src/storage.rs impl:AnnounceStorage find_items props=C07,C01
    pub fn find_items<'a>(
        &'a mut self,
        info_hash: &'_ InfoHash,
    ) -> (r: Vec<SocketAddr>)
        requires old(self).wf()
        ensures final(self).wf(), final(self).expires@ == old(self).expires@.filter(live_at(clock())), // @C07.expiry_exactly_24h @C01.expiry_exactly_24h
            forall|a: SocketAddr| #[trigger] r@.contains(a) <==> e_has(final(self).expires@, (*info_hash, a)), // @C07.answers_exactly_the_live_pairs @C01.answers_exactly_the_live_pairs
            forall|i: int, j: int| 0 <= i < j < r@.len() ==> #[trigger] r@[i] != #[trigger] r@[j], // @C07.answers_distinct
            r@ == items_of(*final(self), *info_hash),
    {
        self.find(info_hash, Instant::now())
    }
//@end

//@begin fn src/storage.rs impl:AnnounceStorage find props=C07,C01
    pub fn find<'a>(
        &'a mut self,
        info_hash: &'_ InfoHash,
        curr_time: Instant,
    ) -> (r: Vec<SocketAddr>)
        requires old(self).wf(), inst_nanos(curr_time) <= clock(),
        ensures final(self).wf(), final(self).expires@ == old(self).expires@.filter(live_at(inst_nanos(curr_time))), // @C07.expiry_exactly_24h @C01.expiry_exactly_24h
            forall|a: SocketAddr| #[trigger] r@.contains(a) <==> e_has(final(self).expires@, (*info_hash, a)), // @C07.answers_exactly_the_live_pairs @C01.answers_exactly_the_live_pairs
            forall|i: int, j: int| 0 <= i < j < r@.len() ==> #[trigger] r@[i] != #[trigger] r@[j], // @C07.answers_distinct
            r@ == items_of(*final(self), *info_hash),
    {
        broadcast use vstd::std_specs::hash::group_hash_axioms, infohash_key_model;
        // Clear out any old contacts that we have stored
        self.remove_expired_items(curr_time);

        let vx_ret = vx_opt_vec_map(self.storage
            .get(info_hash)
            , |item: &AnnounceItem| -> (a: SocketAddr) ensures a == item.expiration.address { item.address() });
        let ghost r = vx_ret;
        proof {
            let h = *info_hash;
            let m = self.storage@;
            assert(r@ =~= items_of(*self, h));
            if m.contains_key(h) {
                let l = m[h]@;
                assert(l_ok(l, h));
                assert forall|a: SocketAddr| #[trigger] r@.contains(a) <==> e_has(self.expires@, (h, a)) by {
                    let k = (h, a);
                    if r@.contains(a) { let i = choose|i: int| 0 <= i < r@.len() && r@[i] == a; assert(l_idx(l, k, i)); assert(st_has(m, k)); }
                    if st_has(m, k) { let j = choose|j: int| l_idx(l, k, j); assert(r@[j] == a); }
                }
                assert forall|i: int, j: int| 0 <= i < j < r@.len() implies #[trigger] r@[i] != #[trigger] r@[j] by {
                    assert(ikey(l[i]) != ikey(l[j]));
                }
            } else {
                assert forall|a: SocketAddr| #[trigger] r@.contains(a) <==> e_has(self.expires@, (h, a)) by {
                    assert(!st_has(m, (h, a)));
                }
            }
        }
        vx_ret
    }
//@end
}
// ================= C07 corollaries, stated as in the property =================
/// at most 500 pairs in total, each pair once: the key sets of both structures coincide and `expires` has no duplicate key
//@props C07
pub proof fn lemma_capacity(s: AnnounceStorage)
    requires s.wf()
    ensures s.expires@.len() <= 500, e_nodup(s.expires@), // @C07.at_most_500_pairs
        forall|k: Key| #[trigger] st_has(s.storage@, k) <==> e_has(s.expires@, k),
{}
/// expiry frees capacity: once every stored pair is 24 h old, a new pair is accepted again
//@props C07
pub proof fn lemma_expiry_frees_capacity(s: AnnounceStorage, now: int)
    requires forall|i: int| 0 <= i < s.expires@.len() ==> expired_at(#[trigger] s.expires@[i], now)
    ensures E0(s, now).len() == 0 // @C07.expiry_frees_capacity
{
    lemma_filter_none(s.expires@, live_at(now));
}
/// a pair is returned exactly while it is younger than 24 h (boundary: at exactly 24 h it is gone)
//@props C07
pub proof fn lemma_24h_boundary(e: ItemExpiration, now: int)
    ensures live_at(now)(e) <==> now - inst_nanos(e.inserted) < 86_400_000_000_000 // @C07.expiry_exactly_24h @C01.expiry_exactly_24h
{}

