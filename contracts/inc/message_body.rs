// ================= message.rs: Message <-> RawMessage mapping (the q / a cross-check) =================
// TRUSTED: std::borrow::Cow (vstd declares the enum; as_ref / into_owned are specified here)
pub uninterp spec fn owned_ref<T: ?Sized + ToOwned>(o: <T as ToOwned>::Owned) -> &'static T;
pub uninterp spec fn to_owned_spec<T: ?Sized + ToOwned>(b: &T) -> <T as ToOwned>::Owned;
pub open spec fn cow_ref<'a, T: ?Sized + ToOwned>(c: Cow<'a, T>) -> &'a T { match c { Cow::Borrowed(b) => b, Cow::Owned(o) => owned_ref::<T>(o) } }
pub open spec fn cow_owned<'a, T: ?Sized + ToOwned>(c: Cow<'a, T>) -> <T as ToOwned>::Owned { match c { Cow::Borrowed(b) => to_owned_spec::<T>(b), Cow::Owned(o) => o } }
pub assume_specification<'a, 'b, T> [<std::borrow::Cow<'a, T> as std::convert::AsRef<T>>::as_ref] (c: &'b std::borrow::Cow<'a, T>) -> (r: &'b T)
    where T: std::marker::MetaSized + std::borrow::ToOwned + ?Sized
    ensures r == cow_ref(*c);
pub assume_specification<'a, B> [std::borrow::Cow::<'_, B>::into_owned] (c: std::borrow::Cow<'a, B>) -> (r: <B as std::borrow::ToOwned>::Owned)
    where B: std::marker::MetaSized + std::borrow::ToOwned + ?Sized
    ensures r == cow_owned(c);
pub broadcast axiom fn cow_sized_ax1<T: Clone>(o: T) ensures #[trigger] owned_ref::<T>(o) == &o;
pub broadcast axiom fn cow_sized_ax2<T: Clone>(o: T) ensures #[trigger] to_owned_spec::<T>(&o) == o;
pub broadcast axiom fn cow_bytes_ax1(v: Vec<u8>) ensures #[trigger] owned_ref::<[u8]>(v)@ == v@;
pub broadcast axiom fn cow_bytes_ax2(s: &[u8]) ensures #[trigger] to_owned_spec::<[u8]>(s)@ == s@;

// TRUSTED: derived Clone on the message value types is field-wise
impl Clone for Request { #[verifier::external_body] fn clone(&self) -> (r: Self) ensures r == *self { unimplemented!() } }
impl Clone for Response { #[verifier::external_body] fn clone(&self) -> (r: Self) ensures r == *self { unimplemented!() } }
impl Clone for Error { #[verifier::external_body] fn clone(&self) -> (r: Self) ensures r == *self { unimplemented!() } }

//@begin type src/message.rs - struct RawMessage
pub struct RawMessage<'a> {
    pub transaction_id: Cow<'a, [u8]>,
    pub message_type: RawMessageType,
    pub request_type: Option<RawRequestType>,
    pub request: Option<Cow<'a, Request>>,
    pub response: Option<Cow<'a, Response>>,
    pub error: Option<Cow<'a, Error>>,
}
//@end
//@begin type src/message.rs - enum RawMessageType
pub enum RawMessageType {
    Request,
    Response,
    Error,
}
//@end
//@begin type src/message.rs - enum RawRequestType
#[derive(Structural, PartialEq, Eq)]
pub enum RawRequestType {
    Ping,
    FindNode,
    GetPeers,
    AnnouncePeer,
}
//@end
//@begin type src/message.rs - enum RawMessageError
pub enum RawMessageError {
    MissingRequestType,
    MissingRequestArgs,
    MissingResponse,
    MissingError,
    InvalidRequest,
}
//@end

/// the method name (`q`) that belongs to each kind of query arguments (BEP5)
pub open spec fn kind_of(r: Request) -> RawRequestType {
    match r { Request::Ping(_) => RawRequestType::Ping, Request::FindNode(_) => RawRequestType::FindNode,
              Request::GetPeers(_) => RawRequestType::GetPeers, Request::AnnouncePeer(_) => RawRequestType::AnnouncePeer }
}
/// the abstract content of a raw message whose optional parts fit its type
pub open spec fn raw_wf(v: RawMessage) -> bool {
    match v.message_type {
        RawMessageType::Request => v.request_type is Some && v.request is Some && kind_of(*cow_ref(v.request->0)) == v.request_type->0,
        RawMessageType::Response => v.response is Some,
        RawMessageType::Error => v.error is Some,
    }
}
pub open spec fn raw_body(v: RawMessage) -> MessageBody {
    match v.message_type {
        RawMessageType::Request => MessageBody::Request(*cow_ref(v.request->0)),
        RawMessageType::Response => MessageBody::Response(*cow_ref(v.response->0)),
        RawMessageType::Error => MessageBody::Error(*cow_ref(v.error->0)),
    }
}

// the std conversion traits carry an optional `*_spec` link in vstd; it is switched off, the contracts below are the specification
impl<'a> vstd::std_specs::convert::FromSpecImpl<&'a Request> for RawRequestType {
    open spec fn obeys_from_spec() -> bool { false }
    open spec fn from_spec(v: &'a Request) -> Self { kind_of(*v) }
}
impl<'a> vstd::std_specs::convert::FromSpecImpl<&'a Message> for RawMessage<'a> {
    open spec fn obeys_from_spec() -> bool { false }
    uninterp spec fn from_spec(v: &'a Message) -> Self;
}
impl vstd::std_specs::convert::TryFromSpecImpl<RawMessage<'_>> for Message {
    open spec fn obeys_try_from_spec() -> bool { false }
    uninterp spec fn try_from_spec(v: RawMessage<'_>) -> Result<Self, Self::Error>;
}
impl<'a> From<&'a Request> for RawRequestType {
//@begin fn src/message.rs impl:<'a>From<&'aRequest>@for@RawRequestType from props=C13
    fn from(value: &'a Request) -> (r: Self)
        ensures r == kind_of(*value), // @C13.method_name_matches_arguments
    {
        match value {
            Request::Ping(_) => Self::Ping,
            Request::FindNode(_) => Self::FindNode,
            Request::GetPeers(_) => Self::GetPeers,
            Request::AnnouncePeer(_) => Self::AnnouncePeer,
        }
    }
//@end
}

impl<'a> From<&'a Message> for RawMessage<'a> {
//@begin fn src/message.rs impl:<'a>From<&'aMessage>@for@RawMessage<'a> from props=C13
    fn from(value: &'a Message) -> (r: Self)
        ensures raw_wf(r), raw_body(r) == value.body, cow_ref(r.transaction_id)@ == value.transaction_id@, // @C13.encoder_side_mapping_is_faithful
            (r.request_type is Some <==> value.body is Request) && (r.request is Some <==> value.body is Request)
                && (r.response is Some <==> value.body is Response) && (r.error is Some <==> value.body is Error), // @C13.exactly_the_keys_of_the_message_kind
    {
        match &value.body {
            MessageBody::Request(request) => Self {
                transaction_id: Cow::Borrowed(&value.transaction_id),
                message_type: RawMessageType::Request,
                request_type: Some(RawRequestType::from(request)),
                request: Some(Cow::Borrowed(request)),
                response: None,
                error: None,
            },
            MessageBody::Response(response) => Self {
                transaction_id: Cow::Borrowed(&value.transaction_id),
                message_type: RawMessageType::Response,
                request_type: None,
                request: None,
                response: Some(Cow::Borrowed(response)),
                error: None,
            },
            MessageBody::Error(error) => Self {
                transaction_id: Cow::Borrowed(&value.transaction_id),
                message_type: RawMessageType::Error,
                request_type: None,
                request: None,
                response: None,
                error: Some(Cow::Borrowed(error)),
            },
        }
    }
//@end
}

impl TryFrom<RawMessage<'_>> for Message {
    type Error = RawMessageError;
//@begin fn src/message.rs impl:TryFrom<RawMessage<'_>>@for@Message try_from props=C13
    fn try_from(value: RawMessage) -> (res: Result<Self, Self::Error>)
        ensures
            res is Ok <==> raw_wf(value), // @C13.query_rejected_unless_arguments_fit_the_named_method
            res is Ok ==> res->Ok_0.body == raw_body(value) && res->Ok_0.transaction_id@ == cow_ref(value.transaction_id)@, // @C13.decoder_side_mapping_is_faithful
    {
        broadcast use cow_sized_ax1, cow_sized_ax2, cow_bytes_ax1, cow_bytes_ax2;
        let body = match value.message_type {
            RawMessageType::Request => {
                let request_type = value
                    .request_type
                    .ok_or(RawMessageError::MissingRequestType)?;
                let request = value.request.ok_or(RawMessageError::MissingRequestArgs)?;

                match (request_type, request.as_ref()) {
                    (RawRequestType::Ping, Request::Ping(_))
                    | (RawRequestType::FindNode, Request::FindNode(_))
                    | (RawRequestType::GetPeers, Request::GetPeers(_))
                    | (RawRequestType::AnnouncePeer, Request::AnnouncePeer(_)) => {
                        MessageBody::Request(request.into_owned())
                    }
                    _ => Err(RawMessageError::InvalidRequest)?,
                }
            }
            RawMessageType::Response => MessageBody::Response(
                value
                    .response
                    .ok_or(RawMessageError::MissingResponse)?
                    .into_owned(),
            ),
            RawMessageType::Error => MessageBody::Error(
                value
                    .error
                    .ok_or(RawMessageError::MissingError)?
                    .into_owned(),
            ),
        };

        Ok(Self {
            transaction_id: value.transaction_id.into_owned(),
            body,
        })
    }
//@end
}

/// C13: decoding what the encoder-side mapping produced gives back the same message (at the RawMessage level)
//@props C13
pub proof fn lemma_mapping_roundtrip(m: Message, r: RawMessage)
    requires raw_wf(r), raw_body(r) == m.body, cow_ref(r.transaction_id)@ == m.transaction_id@
    ensures raw_wf(r) && raw_body(r) == m.body // @C13.raw_mapping_round_trips
{}
