//@begin type src/node.rs - struct NodeHandle
#[derive(Hash)]
pub struct NodeHandle {
    pub id: NodeId,
    pub addr: SocketAddr,
}
//@end
// TRUSTED: derived Copy/Clone/PartialEq on NodeHandle are field-wise (SocketAddr is external, so `Structural` cannot be derived)
impl Clone for NodeHandle { #[verifier::external_body] fn clone(&self) -> (r: Self) ensures r == *self { unimplemented!() } }
impl Copy for NodeHandle {}
impl Eq for NodeHandle {}
impl PartialEqSpecImpl for NodeHandle {
    open spec fn obeys_eq_spec() -> bool { true }
    open spec fn eq_spec(&self, other: &NodeHandle) -> bool { self.id == other.id && self.addr == other.addr }
}
impl PartialEq for NodeHandle {
    fn eq(&self, other: &NodeHandle) -> bool {
        self.id == other.id && self.addr == other.addr
    }
}
impl NodeHandle {
//@begin fn src/node.rs impl:NodeHandle new
    pub fn new(id: NodeId, addr: SocketAddr) -> (r: Self) ensures r.id == id, r.addr == addr {
        Self { id, addr }
    }
//@end
}
