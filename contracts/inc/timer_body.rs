// ================= timer.rs: schedule / cancel under contract (poll_next, the firing side, is a Stream impl over Pin/Context: unverified) =================
// TRUSTED stand-ins for tokio::time::{Instant, Sleep} and std::time::Duration arithmetic
pub uninterp spec fn dur_nanos(d: Duration) -> nat;
/// tokio's monotonic clock; frozen during one synchronous call
pub uninterp spec fn tclock() -> int;
#[derive(Structural, Clone, Copy, PartialEq, Eq, PartialOrd, Ord)]
pub struct Instant { pub t: u64 }
impl Instant {
    #[verifier::external_body]
    pub fn now() -> (r: Instant) ensures r.t as int == tclock() { unimplemented!() }
}
pub uninterp spec fn inst_plus(i: Instant, d: Duration) -> Instant;
pub broadcast axiom fn inst_plus_ax(i: Instant, d: Duration) ensures #[trigger] inst_plus(i, d).t as int == i.t as int + dur_nanos(d);
impl vstd::std_specs::ops::AddSpecImpl<Duration> for Instant {
    open spec fn obeys_add_spec() -> bool { true }
    open spec fn add_req(self, rhs: Duration) -> bool { true }
    open spec fn add_spec(self, rhs: Duration) -> Instant { inst_plus(self, rhs) }
}
impl std::ops::Add<Duration> for Instant { type Output = Instant; #[verifier::external_body] fn add(self, rhs: Duration) -> Instant { unimplemented!() } }
// TRUSTED: derived PartialOrd/Ord on `Instant { t }` and on `Timeout { deadline, id }` are the lexicographic orders (a total order)
pub broadcast axiom fn instant_lt_ax(a: Instant, b: Instant)
    ensures <Instant as PartialOrdSpec<Instant>>::obeys_partial_cmp_spec(),
       #[trigger] a.partial_cmp_spec(&b) == Some(if a.t < b.t { core::cmp::Ordering::Less } else if a.t == b.t { core::cmp::Ordering::Equal } else { core::cmp::Ordering::Greater });
pub broadcast axiom fn timeout_cmp_ax() ensures #[trigger] vstd::laws_cmp::obeys_cmp_spec::<Timeout>();
// TRUSTED std contract (not used by the pinned timer.rs; lets a change that uses it be judged): BTreeMap::pop_first removes and returns some entry of a non-empty
// map (that it is the smallest key is not stated: no claimed clause depends on the order in which queued entries are promoted)
pub assume_specification<K, V, A> [std::collections::BTreeMap::<K, V, A>::pop_first] (m: &mut std::collections::BTreeMap<K, V, A>) -> (r: std::option::Option<(K, V)>)
    where K: std::cmp::Ord, A: std::alloc::Allocator + std::clone::Clone
    ensures
        r is None ==> final(m)@ == old(m)@ && (forall|k: K| !old(m)@.contains_key(k)),
        r is Some ==> ({ let kv = r->0; old(m)@.contains_key(kv.0) && old(m)@[kv.0] == kv.1 && final(m)@ == old(m)@.remove(kv.0) });
pub struct Sleep { pub deadline: Instant }
impl Sleep { #[verifier::external_body] pub fn deadline(&self) -> (r: Instant) ensures r == self.deadline { unimplemented!() } }
// CurrentTimerEntry: `sleep: Pin<Box<Sleep>>` in the repository; the stand-in keeps the three fields with Sleep unboxed
pub struct CurrentTimerEntry<T> { pub sleep: Sleep, pub value: T, pub id: u64 }

//@begin type src/timer.rs - struct Timeout
#[derive(Structural, Clone, Copy, Ord, PartialOrd, Eq, PartialEq)]
pub struct Timeout {
    pub deadline: Instant,
    pub id: u64,
}
//@end
//@begin type src/timer.rs - struct Timer
pub struct Timer<T> {
    pub next_id: u64,
    pub current: Option<CurrentTimerEntry<T>>,
    pub queue: BTreeMap<Timeout, T>,
}
//@end

impl<T> CurrentTimerEntry<T> {
//@begin fn src/timer.rs impl:<T>CurrentTimerEntry<T> key props=C18
    pub fn key(&self) -> (r: Timeout) ensures r == (Timeout { deadline: self.sleep.deadline, id: self.id }) {
        Timeout {
            deadline: self.sleep.deadline(),
            id: self.id,
        }
    }
//@end
}

impl<T> Timer<T> {
    pub open spec fn cur_key(&self) -> Timeout { Timeout { deadline: self.current->0.sleep.deadline, id: self.current->0.id } }
    /// abstract view: every scheduled entry that has neither fired nor been cancelled, keyed by its token
    pub open spec fn pending(&self) -> Map<Timeout, T> {
        match self.current { Some(c) => self.queue@.insert(self.cur_key(), c.value), None => self.queue@ }
    }
    /// representation invariant: the entry being slept on is not also queued; ids come from the counter
    pub open spec fn wf(&self) -> bool {
        (self.current is Some ==> !self.queue@.contains_key(self.cur_key()) && self.cur_key().id < self.next_id)
        && (forall|k: Timeout| #[trigger] self.queue@.contains_key(k) ==> k.id < self.next_id)
    }

//@begin fn src/timer.rs impl:<T>Timer<T> new props=C18
    pub fn new() -> (r: Self)
        ensures r.wf(), r.pending() == Map::<Timeout, T>::empty(), r.next_id == 0,
    {
        broadcast use timeout_cmp_ax;
        Self {
            next_id: 0,
            current: None,
            queue: BTreeMap::new(),
        }
    }
//@end

//@begin fn src/timer.rs impl:<T>Timer<T> is_empty props=C18
    pub fn is_empty(&self) -> (r: bool)
        ensures r == (self.current is None && self.queue@.len() == 0),
            r == (forall|k: Timeout| !self.pending().contains_key(k)), // @C04.timer_is_empty_iff_nothing_is_pending
    {
        broadcast use timeout_cmp_ax;
        proof {
            if self.current is Some { assert(self.pending().contains_key(self.cur_key())); }
            else if self.queue@.len() != 0 {
                assert(self.queue@.dom().finite());
                let k = self.queue@.dom().choose();
                assert(self.queue@.dom().len() != 0);
                assert(self.queue@.dom().contains(k));
                assert(self.pending().contains_key(k));
            } else {
                assert(self.queue@.dom().finite());
                assert(self.queue@.dom().len() == 0);
                assert forall|k: Timeout| !self.pending().contains_key(k) by {
                    if self.queue@.dom().contains(k) { vstd::set_lib::lemma_set_empty_equivalency_len(self.queue@.dom()); }
                }
            }
        }
        self.current.is_none() && self.queue.is_empty()
    }
//@end

//@begin fn src/timer.rs impl:<T>Timer<T> schedule_in props=C18
    pub fn schedule_in(&mut self, deadline: Duration, value: T) -> (key: Timeout)
        requires old(self).wf(), old(self).next_id < u64::MAX,
        ensures final(self).wf(), key.id == old(self).next_id, final(self).next_id == old(self).next_id + 1,
            final(self).pending() == old(self).pending().insert(key, value), // @C18.schedule_inserts_exactly_one_entry_under_a_fresh_id
            key.deadline.t as int == tclock() + dur_nanos(deadline), // @C18.deadline_is_now_plus_delay
    {
        broadcast use inst_plus_ax;
        self.schedule_at(Instant::now() + deadline, value)
    }
//@end

//@begin fn src/timer.rs impl:<T>Timer<T> schedule_at props=C18
    pub fn schedule_at(&mut self, deadline: Instant, value: T) -> (key: Timeout)
        requires old(self).wf(), old(self).next_id < u64::MAX,
        ensures final(self).wf(), key.id == old(self).next_id, final(self).next_id == old(self).next_id + 1, key.deadline == deadline,
            final(self).pending() == old(self).pending().insert(key, value), // @C18.schedule_inserts_exactly_one_entry_under_a_fresh_id
    {
        broadcast use timeout_cmp_ax, instant_lt_ax;
        // If the current timeout is later than the new one, push it back into the queue.
        if let Some(current) = &self.current {
            let key = current.key();

            if deadline < key.deadline {
                let CurrentTimerEntry { value, .. } = self.current.take().unwrap();
                self.queue.insert(key, value);
            }
        }
        let ghost mid = self.pending();
        proof { assert(mid =~= old(self).pending()); }

        let id = self.next_id();
        let key = Timeout { deadline, id };
        self.queue.insert(key, value);
        proof { assert(self.pending() =~= old(self).pending().insert(key, value)); }

        key
    }
//@end

//@begin fn src/timer.rs impl:<T>Timer<T> cancel props=C18
    pub fn cancel(&mut self, timeout: Timeout) -> (r: bool)
        requires old(self).wf(),
        ensures final(self).wf(), final(self).next_id == old(self).next_id,
            r == old(self).pending().contains_key(timeout),
            final(self).pending() == old(self).pending().remove(timeout), // @C18.cancel_removes_exactly_that_entry
    {
        broadcast use timeout_cmp_ax;
        if let Some(current) = &self.current {
            if current.key() == timeout {
                self.current = None;
                proof { assert(self.pending() =~= old(self).pending().remove(timeout)); }
                return true;
            }
        }

        let vx_ret = self.queue.remove(&timeout).is_some();
        proof { assert(self.pending() =~= old(self).pending().remove(timeout)); }
        vx_ret
    }
//@end

//@begin fn src/timer.rs impl:<T>Timer<T> next_id nopub=1
    fn next_id(&mut self) -> (id: u64)
        requires old(self).next_id < u64::MAX,
        ensures id == old(self).next_id, final(self).next_id == id + 1, final(self).current == old(self).current, final(self).queue == old(self).queue,
    {
        let id = self.next_id;
        self.next_id = self.next_id.wrapping_add(1);
        id
    }
//@end
}
