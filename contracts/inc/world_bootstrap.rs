// ================= the bootstrap task's world: ghost tokens and stand-ins =================
// The task (action/bootstrap.rs) is one spawned future.  It is read sequentially (R-deasync, R-pin, R-select): a future runs
// to completion where it is created, `select!` is a nondeterministic choice between its enabled arms.
//
// Ghost state threaded through the task:
//   Trace            every datagram handed to the socket and every routing-table offer (world_core)
//   Hist             every message id issued so far by the task's generator (unit txid)
//   Own<MIDGenerator> the value behind the task's private `Mutex<MIDGenerator>` (owned by value by the task: no other holder)
//   Pub              the state last published on the watch channel (the task is the channel's only writer)

/// value behind a Mutex that is owned by value by a single task
pub tracked struct Own<T> { pub ghost v: T }
/// last value published on the task's watch channel
pub tracked struct Pub { pub ghost state: State }

impl Mutex<MIDGenerator> {
    // R-lock (owned): the mutex is a plain field of the task's state, so the value found at a lock is the value left at the
    // previous unlock; `final` of the handed-out reference flows back into the token.
    #[verifier::external_body]
    pub fn lock<'a>(&'a self, Tracked(g): Tracked<&'a mut Own<MIDGenerator>>) -> (r: Result<&'a mut MIDGenerator, ()>)
        ensures r is Ok, *(r->Ok_0) == old(g).v, final(g).v == *final(r->Ok_0)
    { unimplemented!() }
}

/// a datagram with transaction id `tid` has been handed to the socket for `addr`
pub open spec fn sent_to(ev: Seq<Ev>, tid: Seq<u8>, addr: SocketAddr) -> bool {
    exists|i: int| 0 <= i < ev.len() && #[trigger] ev[i] is Send && ev[i]->Send_0.transaction_id@ == tid && ev[i]->Send_1 == addr
}
/// a datagram with transaction id `tid` has been handed to the socket
pub open spec fn sent_id(ev: Seq<Ev>, tid: Seq<u8>) -> bool {
    exists|i: int| 0 <= i < ev.len() && #[trigger] ev[i] is Send && ev[i]->Send_0.transaction_id@ == tid
}
pub open spec fn no_sends(ev: Seq<Ev>) -> bool { forall|i: int| 0 <= i < ev.len() ==> !(#[trigger] ev[i] is Send) }
/// some contact's response has been accepted (its sender offered to the routing table as good)
pub open spec fn answered(ev: Seq<Ev>) -> bool { exists|i: int| 0 <= i < ev.len() && #[trigger] ev[i] is TableAdd }
/// the 8 big-endian bytes of action prefix | message id
pub open spec fn id_of(action_id: u64, mid: u64) -> TransactionID { choose|t: TransactionID| tid_value(t) == action_id | mid }
/// `tid` are the 8 bytes of the id action prefix | mid
pub open spec fn id_matches(action_id: u64, mid: u64, tid: Seq<u8>) -> bool {
    exists|t: TransactionID| #[trigger] tid_value(t) == action_id | mid && t.bytes@ == tid
}
/// `tid` is one of the ids issued so far
pub open spec fn hist_has(hist: Seq<u64>, action_id: u64, tid: Seq<u8>) -> bool {
    exists|k: int| 0 <= k < hist.len() && id_matches(action_id, #[trigger] hist[k], tid)
}
/// every datagram sent so far carries an id issued by the task's generator
pub open spec fn ids_from_hist(ev: Seq<Ev>, action_id: u64, hist: Seq<u64>) -> bool {
    forall|i: int| 0 <= i < ev.len() && #[trigger] ev[i] is Send ==> hist_has(hist, action_id, ev[i]->Send_0.transaction_id@)
}

// ---- socket: request/response path (socket.rs:52-62,99-116).  `responded()` asserts that (addr, transaction id) is not already
//      outstanding -- a second request with the same id to the same address panics.  The precondition states the property's
//      clause (never the same id twice towards the same address, as long as ids have not wrapped) and makes that assertion
//      unreachable.
pub struct Responded { pub from: SocketAddr }
impl Socket {
    #[verifier::external_body]
    pub fn send_request(&self, message: &Message, addr: SocketAddr, timeout: Duration, Tracked(tr): Tracked<&mut Trace>, Tracked(h): Tracked<&Hist>) -> (r: Result<Responded, io::Error>)
        requires h.s.len() <= M() ==> !sent_to(old(tr).ev, message.transaction_id@, addr), // @C19.no_id_twice_towards_the_same_address @C15.duplicate_contacts_do_not_panic
        ensures final(tr).ev == old(tr).ev.push(Ev::Send(*message, addr))
    { unimplemented!() }
}

// ---- tokio::sync::watch stand-ins.  start_rx is written by the handler (arbitrary at every read); state_tx is written by this task only.
pub mod watch {
    use super::*;
    pub struct Receiver<T> { pub t: core::marker::PhantomData<T> }
    pub struct Sender<T> { pub t: core::marker::PhantomData<T> }
    impl<T> Receiver<T> {
        #[verifier::external_body]
        pub fn borrow(&self) -> (r: &T) { unimplemented!() }
        #[verifier::external_body]
        pub fn changed(&mut self) -> (r: Result<(), ()>) { unimplemented!() }
    }
    impl Sender<State> {
        #[verifier::external_body]
        pub fn borrow(&self, Tracked(p): Tracked<&Pub>) -> (r: &State) ensures *r == p.state { unimplemented!() }
        #[verifier::external_body]
        pub fn send(&self, v: State, Tracked(p): Tracked<&mut Pub>) -> (r: Result<(), ()>) ensures final(p).state == v { unimplemented!() }
    }
}

// ---- futures_util::stream::FuturesUnordered<Responded> stand-in: only the number of pending futures is modelled; what a future
//      resolves to (a message from the network, or None on timeout) is arbitrary
pub struct FuturesUnordered<T> { pub n: Ghost<nat>, pub t: core::marker::PhantomData<T> }
impl FuturesUnordered<Responded> {
    #[verifier::external_body]
    pub fn new() -> (r: Self) ensures r.n@ == 0 { unimplemented!() }
    #[verifier::external_body]
    pub fn push(&mut self, f: Responded) ensures final(self).n@ == old(self).n@ + 1 { unimplemented!() }
    #[verifier::external_body]
    pub fn is_empty(&self) -> (r: bool) ensures r == (self.n@ == 0) { unimplemented!() }
    #[verifier::external_body]
    pub fn next(&mut self) -> (r: Option<Option<(Message, SocketAddr)>>)
        ensures old(self).n@ == 0 ==> r is None && final(self).n@ == 0, old(self).n@ > 0 ==> r is Some && final(self).n@ == old(self).n@ - 1
    { unimplemented!() }
}
impl mpsc::UnboundedSender<Responded> {
    #[verifier::external_body]
    pub fn send(&self, v: Responded) -> (r: Result<(), ()>) { unimplemented!() }
}

// ---- R-select / R-pending / tokio::time stand-ins

#[verifier::external_body]
pub fn vx_pending() ensures false { unimplemented!() }
#[verifier::external_body]
pub fn sleep(d: Duration) { unimplemented!() }
pub mod time {
    use super::*;
    #[verifier::external_body]
    pub fn sleep(d: Duration) { unimplemented!() }
}
// ASSUMED: DNS resolution of the router names yields an arbitrary set of addresses (action/mod.rs:88-99)
#[verifier::external_body]
pub fn resolve(routers: &HashSet<String>, ip_v: IpVersion) -> HashSet<SocketAddr> { unimplemented!() }
#[verifier::allow(undeclared_external_trait)]
pub assume_specification<T: std::cmp::Ord + std::marker::Destruct> [std::cmp::min] (a: T, b: T) -> (r: T)
    ensures r == a || r == b;
#[verifier::external_body]
pub fn vx_duration_max(a: Duration, b: Duration) -> (r: Duration) ensures r == a || r == b { unimplemented!() }

// TRUSTED: std io::ErrorKind (used only to rate-limit the log line)
#[verifier::external_type_specification]
#[verifier::external_body]
pub struct ExErrorKind(io::ErrorKind);
pub assume_specification [io::Error::kind] (e: &io::Error) -> io::ErrorKind;

// ---- R-chain stand-ins.  TRUSTED (std): HashSet::iter yields every element exactly once; chain yields the first iterator's
//      items, then the second's; difference yields the elements of the first set that are not in the second.
pub open spec fn chain_spec(s: Seq<&SocketAddr>, a: Set<SocketAddr>, b: Set<SocketAddr>, k: int) -> bool {
    &&& 0 <= k <= s.len()
    &&& (forall|i: int, j: int| 0 <= i < j < k ==> *#[trigger] s[i] != *#[trigger] s[j])
    &&& (forall|i: int, j: int| k <= i < j < s.len() ==> *#[trigger] s[i] != *#[trigger] s[j])
    &&& (forall|i: int| 0 <= i < k ==> a.contains(*#[trigger] s[i]))
    &&& (forall|i: int| k <= i < s.len() ==> b.contains(*#[trigger] s[i]))
}
#[verifier::external_body]
pub fn vx_chain<'a>(a: &'a HashSet<SocketAddr>, b: &'a HashSet<SocketAddr>) -> (r: Vec<&'a SocketAddr>)
    ensures exists|k: int| chain_spec(r@, a@, b@, k), r@.len() <= usize::MAX
{ unimplemented!() }
#[verifier::external_body]
pub fn vx_chain_difference<'a>(a: &'a HashSet<SocketAddr>, b: &'a HashSet<SocketAddr>) -> (r: Vec<&'a SocketAddr>)
    ensures exists|k: int| chain_spec(r@, a@, b@.difference(a@), k), r@.len() <= usize::MAX
{ unimplemented!() }

// TRUSTED std contract: u64::pow (panics on overflow in debug builds, wraps in release: absence of overflow is an obligation)
pub assume_specification [u64::pow] (b: u64, e: u32) -> (r: u64)
    requires vstd::arithmetic::power::pow(b as int, e as nat) <= u64::MAX
    ensures r == vstd::arithmetic::power::pow(b as int, e as nat);
/// VERIFIED helper (rule R-ordmin): Ord::min on u64
pub fn vx_min_u64(a: u64, b: u64) -> (r: u64) ensures r == (if a <= b { a } else { b }) { if a <= b { a } else { b } }
pub proof fn lemma_pow2_small(e: nat)
    requires 1 <= e <= 9
    ensures 2 <= vstd::arithmetic::power::pow(2, e) <= 512
{
    vstd::arithmetic::power2::lemma_pow2(e);
    vstd::arithmetic::power2::lemma2_to64();
}
