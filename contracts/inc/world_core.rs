// ================= the handler's world: ghost effect trace and stand-ins =================
//@begin type src/action/mod.rs - enum IpVersion
#[derive(Structural, Eq, PartialEq, Clone, Copy)]
pub enum IpVersion {
    V4,
    V6,
}
//@end
//@begin type src/action/mod.rs - enum WorkerError
pub enum WorkerError {
    InvalidTransactionId,
    UnsolicitedResponse,
    SocketError(io::Error),
}
//@end
#[verifier::external_type_specification]
#[verifier::external_body]
pub struct ExIoError(io::Error);
// TRUSTED: thiserror's #[from] generates exactly this conversion
impl vstd::std_specs::convert::FromSpecImpl<io::Error> for WorkerError {
    open spec fn obeys_from_spec() -> bool { true }
    open spec fn from_spec(e: io::Error) -> WorkerError { WorkerError::SocketError(e) }
}
impl From<io::Error> for WorkerError { fn from(e: io::Error) -> WorkerError { WorkerError::SocketError(e) } }
//@begin type src/action/mod.rs - enum ActionStatus
#[derive(Structural, PartialEq, Eq)]
pub enum ActionStatus {
    Ongoing,
    Completed,
}
//@end
//@begin type src/action/mod.rs - enum ScheduledTaskCheck
#[derive(Copy, Clone)]
pub enum ScheduledTaskCheck {
    TableRefresh,
    LookupTimeout(TransactionID),
    LookupEndGame(TransactionID),
}
//@end

/// Everything observable a handler call does.  A function without the ghost parameter cannot emit anything.
pub enum Ev {
    /// a message handed to the socket for `addr`
    Send(Message, SocketAddr),
    /// a search result handed to the user's stream
    Yield(SocketAddr),
    /// RoutingTable::add_nodes(Node::as_good(responder), hearsay handles)
    TableAdd(NodeHandle, Seq<NodeHandle>),
    /// RoutingTable::find_node_mut(handle): at most the one existing live record with that handle is handed out for marking;
    /// the flag tells whether a record was found
    TableFind(NodeHandle, bool),
    /// Node::remote_request (false: "this node queried us") / Node::local_request (true: "we queried this node") on the record of that handle
    Mark(NodeHandle, bool),
    /// TableLookup::new(info_hash, announce)
    LookupStart(InfoHash, bool),
}
pub tracked struct Trace { pub ghost ev: Seq<Ev> }
/// events appended by one call
pub open spec fn delta(o: Seq<Ev>, f: Seq<Ev>) -> Seq<Ev> { Seq::new((f.len() - o.len()) as nat, |i: int| f[o.len() + i]) }
pub open spec fn extends(o: Seq<Ev>, f: Seq<Ev>) -> bool { o.len() <= f.len() && forall|i: int| 0 <= i < o.len() ==> #[trigger] f[i] == o[i] }

// ---- socket: struct and ip_version are the real text; `send` is a stand-in (encoder + UDP are dependencies)
//@begin type src/socket.rs - struct Socket drop=inner_socket,transactions
pub struct Socket {
    pub local_addr: SocketAddr,
}
//@end
impl Socket {
    /// ASSUMED (socket.rs:72-98, Arc / Mutex / Waker and the bencode decoder are outside the subset): yields some decoded message with its
    /// source address, or an error; undecodable datagrams are skipped inside (it has no access to the effect trace: it cannot send)
    #[verifier::external_body]
    pub fn recv(&self) -> Result<(Message, SocketAddr), io::Error> { unimplemented!() }
    #[verifier::external_body]
    pub fn send(&self, message: &Message, addr: SocketAddr, Tracked(tr): Tracked<&mut Trace>) -> (r: Result<(), io::Error>)
        ensures final(tr).ev == old(tr).ev.push(Ev::Send(*message, addr))
    { unimplemented!() }
//@begin fn src/socket.rs impl:Socket local_addr
    pub fn local_addr(&self) -> (r: SocketAddr) ensures r == self.local_addr {
        self.local_addr
    }
//@end
//@begin fn src/socket.rs impl:Socket ip_version
    pub fn ip_version(&self) -> (r: IpVersion)
        ensures r == (if sa_is_v4(self.local_addr) { IpVersion::V4 } else { IpVersion::V6 }),
    {
        match self.local_addr {
            SocketAddr::V4(_) => IpVersion::V4,
            SocketAddr::V6(_) => IpVersion::V6,
        }
    }
//@end
}

// ---- R-lock: std::sync::Mutex stand-in; the value behind it is arbitrary at every lock (another task may have changed it)
pub struct Mutex<T> { t: T }
impl<T> Mutex<T> {
    // std::sync::Mutex::new: the value behind the lock is arbitrary at every later lock, so nothing is stated
    #[verifier::external_body]
    pub fn new(t: T) -> Mutex<T> { unimplemented!() }
}
impl Mutex<RoutingTable> {
    #[verifier::external_body]
    pub fn lock(&self) -> (r: Result<&mut RoutingTable, ()>) ensures r is Ok { unimplemented!() }
}

// ---- routing table stand-ins: every mutation is an event (contracts of the real functions: unit `routing`)
pub struct Node { pub handle: NodeHandle }
impl Clone for Node { #[verifier::external_body] fn clone(&self) -> (r: Node) ensures r == *self { unimplemented!() } }
impl Node {
    #[verifier::external_body] pub fn as_good(id: NodeId, addr: SocketAddr) -> (r: Node) ensures r.handle.id == id, r.handle.addr == addr { unimplemented!() }
    #[verifier::external_body] pub fn as_questionable(id: NodeId, addr: SocketAddr) -> (r: Node) ensures r.handle.id == id, r.handle.addr == addr { unimplemented!() }
    #[verifier::external_body] pub fn remote_request(&mut self, Tracked(tr): Tracked<&mut Trace>) ensures final(self).handle == old(self).handle, final(tr).ev == old(tr).ev.push(Ev::Mark(old(self).handle, false)) { unimplemented!() }
    #[verifier::external_body] pub fn local_request(&mut self, Tracked(tr): Tracked<&mut Trace>) ensures final(self).handle == old(self).handle, final(tr).ev == old(tr).ev.push(Ev::Mark(old(self).handle, true)) { unimplemented!() }
    #[verifier::external_body] pub fn addr(&self) -> (r: SocketAddr) ensures r == self.handle.addr { unimplemented!() }
    #[verifier::external_body] pub fn handle(&self) -> (r: &NodeHandle) ensures *r == self.handle { unimplemented!() }
    #[verifier::external_body] pub fn status(&self) -> (r: NodeStatus) ensures r == spec_status(*self) { unimplemented!() }
    #[verifier::external_body] pub fn recently_requested_from(&self) -> (r: bool) ensures r == spec_recent(*self) { unimplemented!() }
}
/// what Node::status / Node::recently_requested_from report (proved equal to the BEP5 status function in unit `routing`)
pub uninterp spec fn spec_status(n: Node) -> NodeStatus;
pub uninterp spec fn spec_recent(n: Node) -> bool;
#[verifier::external_body]
pub struct ClosestNodes<'a> { p: core::marker::PhantomData<&'a Node> }
impl<'a> Iterator for ClosestNodes<'a> {
    type Item = &'a Node;
    #[verifier::external_body] fn next(&mut self) -> Option<&'a Node> { unimplemented!() }
}
// ASSUMED: ClosestNodes is a well-behaved finite iterator (its body, table.rs:253-340, is outside Verus' subset)
impl<'a> vstd::std_specs::iter::IteratorSpecImpl for ClosestNodes<'a> {
    uninterp spec fn obeys_prophetic_iter_laws(&self) -> bool;
    uninterp spec fn remaining(&self) -> Seq<Self::Item>;
    uninterp spec fn will_return_none(&self) -> bool;
    uninterp spec fn decrease(&self) -> Option<nat>;
    uninterp spec fn peek(&self, index: int) -> Option<Self::Item>;
}
pub struct RoutingTable { pub node_id: NodeId, pub routers: HashSet<SocketAddr> }
impl RoutingTable {
    /// RoutingTable::load_contacts (table.rs: reads the table; outside the handler unit)
    #[verifier::external_body]
    pub fn load_contacts(&self) -> (HashSet<SocketAddr>, HashSet<SocketAddr>) { unimplemented!() }
    /// RoutingTable::new (contract of the real function: unit `routing`); the handler only ever sees the table behind its lock
    #[verifier::external_body]
    pub fn new(node_id: NodeId) -> RoutingTable { unimplemented!() }
    #[verifier::external_body]
    pub fn find_node_mut<'a>(&'a mut self, node: &'_ NodeHandle, Tracked(tr): Tracked<&mut Trace>) -> (r: Option<&'a mut Node>)
        ensures final(tr).ev == old(tr).ev.push(Ev::TableFind(*node, r is Some)), r is Some ==> r->0.handle == *node
    { unimplemented!() }
    /// RoutingTable::add_node(node): an offer of one node is a table admission event (not called by the pinned handler / search / refresh code;
    /// the stand-in lets a change that calls it be judged)
    //@ghost_default add_node 1 : Tracked(tr)
    #[verifier::external_body]
    pub fn add_node(&mut self, node: Node, Tracked(tr): Tracked<&mut Trace>)
        ensures final(tr).ev == old(tr).ev.push(Ev::TableAdd(node.handle, Seq::empty()))
    { unimplemented!() }
    #[verifier::external_body]
    pub fn add_nodes(&mut self, node: Node, questionable_nodes: &[NodeHandle], Tracked(tr): Tracked<&mut Trace>)
        ensures final(tr).ev == old(tr).ev.push(Ev::TableAdd(node.handle, questionable_nodes@))
    { unimplemented!() }
    #[verifier::external_body]
    pub fn closest_nodes(&self, node_id: NodeId) -> (r: ClosestNodes<'_>)
        ensures IteratorSpec::obeys_prophetic_iter_laws(&r), IteratorSpec::decrease(&r) is Some { unimplemented!() }
    #[verifier::external_body]
    pub fn node_id(&self) -> (r: NodeId) ensures r == self.node_id { unimplemented!() }
    #[verifier::external_body]
    pub fn num_good_nodes(&self) -> usize { unimplemented!() }
    #[verifier::external_body]
    pub fn num_questionable_nodes(&self) -> usize { unimplemented!() }
}
//@begin type src/node.rs - enum NodeStatus
#[derive(Structural, Copy, Clone, PartialEq, Eq)]
pub enum NodeStatus {
    Bad,
    Questionable,
    Good,
}
//@end

// ---- timer stand-in: `pending` maps the id of every scheduled-and-not-yet-fired/cancelled timeout to (task, delay in ns)
//      ASSUMED contract of timer.rs:37-68 (schedule inserts under a fresh id, cancel removes exactly that id)
/// tokio::time::Instant stand-in and its clock (frozen during one synchronous call)
#[derive(Structural, Clone, Copy, PartialEq, Eq)]
pub struct TokioInstant { pub t: u64 }
pub uninterp spec fn tclock() -> int;
// stand-in of timer.rs `Timeout { deadline, id }` (the real struct is a region of unit `timer`)
#[derive(Structural, Clone, Copy, PartialEq, Eq)]
pub struct Timeout { pub deadline: TokioInstant, pub id: u64 }
/// Timer stand-in carrying the contracts PROVED in unit `timer` for the real Timer::{schedule_in, cancel}: `pending` is the
/// abstract view (every scheduled entry that has neither fired nor been cancelled, keyed by its token).  The only difference
/// to the proved contracts: the precondition next_id < u64::MAX is dropped (ASSUMED: fewer than 2^64 timeouts per run).
pub struct Timer<T> { pub next_id: u64, pub pending: Ghost<Map<Timeout, T>> }
impl<T> Timer<T> {
    pub open spec fn wf(&self) -> bool { forall|k: Timeout| #[trigger] self.pending@.contains_key(k) ==> k.id < self.next_id }
    /// proved in unit `timer` for the real Timer::new: nothing is pending, ids start at 0
    #[verifier::external_body]
    pub fn new() -> (r: Self)
        ensures r.wf(), r.pending@ == Map::<Timeout, T>::empty(), r.next_id == 0,
    { unimplemented!() }
    #[verifier::external_body]
    pub fn schedule_in(&mut self, deadline: Duration, value: T) -> (key: Timeout)
        requires old(self).wf()
        ensures final(self).wf(), key.id == old(self).next_id, final(self).next_id == old(self).next_id + 1,
            final(self).pending@ == old(self).pending@.insert(key, value),
            key.deadline.t as int == tclock() + dur_nanos(deadline),
    { unimplemented!() }
    /// proved in unit `timer` for the real Timer::is_empty: true iff nothing is pending
    #[verifier::external_body]
    pub fn is_empty(&self) -> (r: bool)
        ensures r == (forall|k: Timeout| !self.pending@.contains_key(k))
    { unimplemented!() }
    /// ASSUMED (timer.rs:77-105, Stream::poll_next over Pin / Context is outside the subset; `next` is StreamExt::next): when an entry is
    /// pending the stream yields the task of exactly one pending entry and removes that entry; nothing else changes
    #[verifier::external_body]
    pub fn next(&mut self) -> (r: Option<T>)
        requires old(self).wf()
        ensures final(self).wf(), final(self).next_id == old(self).next_id,
            (exists|k: Timeout| old(self).pending@.contains_key(k)) ==> r is Some,
            r is Some ==> exists|k: Timeout| #[trigger] old(self).pending@.contains_key(k) && old(self).pending@[k] == r->0 && final(self).pending@ == old(self).pending@.remove(k),
            r is None ==> final(self).pending@ == old(self).pending@,
    { unimplemented!() }
    #[verifier::external_body]
    pub fn cancel(&mut self, timeout: Timeout) -> (r: bool)
        requires old(self).wf()
        ensures final(self).wf(), final(self).next_id == old(self).next_id,
            r == old(self).pending@.contains_key(timeout), final(self).pending@ == old(self).pending@.remove(timeout)
    { unimplemented!() }
}
/// what a search may do to the timer: cancel/fire old entries, schedule new ones under fresh ids, never a table-refresh entry
pub open spec fn no_new_refresh(o: Timer<ScheduledTaskCheck>, f: Timer<ScheduledTaskCheck>) -> bool {
    f.wf() && f.next_id >= o.next_id
    && (forall|k: Timeout| #[trigger] f.pending@.contains_key(k) && k.id < o.next_id ==> o.pending@.contains_key(k) && o.pending@[k] == f.pending@[k])
    && (forall|k: Timeout| #[trigger] f.pending@.contains_key(k) && k.id >= o.next_id ==> !(f.pending@[k] is TableRefresh))
}

// ---- lookup stand-in: contracts of the entry points used by the handler (recv_finished is proved in unit `lookup`)
/// between o and f only queries were sent, peers yielded, nodes marked and timeouts used (no reply, no table admission, no new search)
pub open spec fn only_requests_and_yields(o: Seq<Ev>, f: Seq<Ev>) -> bool {
    extends(o, f) && forall|i: int| o.len() <= i < f.len() ==> match #[trigger] f[i] {
        Ev::Send(m, _) => m.body is Request,
        Ev::TableAdd(_, _) => false,
        Ev::LookupStart(_, _) => false,
        _ => true,
    }
}
/// every message sent between o and f is a query
pub open spec fn sends_only_requests(o: Seq<Ev>, f: Seq<Ev>) -> bool {
    extends(o, f) && forall|i: int| o.len() <= i < f.len() && #[trigger] f[i] is Send ==> f[i]->Send_0.body is Request
}
// ---- R-select: tokio::select! read as a nondeterministic choice between its enabled arms
#[verifier::external_body]
pub fn vx_select() -> usize { unimplemented!() }
/// tokio's select! panics when every arm is disabled and there is no else arm
pub fn vx_select_idle(some_arm_enabled: bool) requires some_arm_enabled {}
/// C10 / C11 / C12: marking discipline between o and f.  A record is marked only right after it was looked up by its (id, address) handle and found,
/// always in the direction `we_queried` (true: we sent it a query; false: it sent us one); and every record that was looked up and found IS marked.
#[verifier::opaque]
pub open spec fn marks_ok(o: Seq<Ev>, f: Seq<Ev>, we_queried: bool) -> bool {
    &&& extends(o, f)
    &&& forall|i: int| o.len() <= i < f.len() && #[trigger] f[i] is Mark ==> i > o.len() && f[i - 1] == Ev::TableFind(f[i]->Mark_0, true) && f[i]->Mark_1 == we_queried
    &&& forall|i: int| o.len() <= i < f.len() && #[trigger] f[i] is TableFind && f[i]->TableFind_1 ==> i + 1 < f.len() && f[i + 1] == Ev::Mark(f[i]->TableFind_0, we_queried)
}
/// marks_ok is kept by appending an event that is neither a lookup nor a mark
pub proof fn lemma_marks_other(o: Seq<Ev>, m: Seq<Ev>, e: Ev, w: bool)
    requires marks_ok(o, m, w), !(e is Mark), !(e is TableFind)
    ensures marks_ok(o, m.push(e), w)
{
    reveal(marks_ok);
    let f = m.push(e);
    assert forall|i: int| o.len() <= i < f.len() && #[trigger] f[i] is Mark implies i > o.len() && f[i - 1] == Ev::TableFind(f[i]->Mark_0, true) && f[i]->Mark_1 == w by {
        assert(i < m.len()); assert(m[i] is Mark);
    }
    assert forall|i: int| o.len() <= i < f.len() && #[trigger] f[i] is TableFind && f[i]->TableFind_1 implies i + 1 < f.len() && f[i + 1] == Ev::Mark(f[i]->TableFind_0, w) by {
        assert(i < m.len()); assert(m[i] is TableFind);
    }
}
/// ... by a lookup that found nothing
pub proof fn lemma_marks_miss(o: Seq<Ev>, m: Seq<Ev>, h: NodeHandle, w: bool)
    requires marks_ok(o, m, w)
    ensures marks_ok(o, m.push(Ev::TableFind(h, false)), w)
{
    reveal(marks_ok);
    let f = m.push(Ev::TableFind(h, false));
    assert forall|i: int| o.len() <= i < f.len() && #[trigger] f[i] is Mark implies i > o.len() && f[i - 1] == Ev::TableFind(f[i]->Mark_0, true) && f[i]->Mark_1 == w by {
        assert(i < m.len()); assert(m[i] is Mark);
    }
    assert forall|i: int| o.len() <= i < f.len() && #[trigger] f[i] is TableFind && f[i]->TableFind_1 implies i + 1 < f.len() && f[i + 1] == Ev::Mark(f[i]->TableFind_0, w) by {
        assert(i < m.len()); assert(m[i] is TableFind);
    }
}
/// ... and by a lookup that found the record followed by its mark
pub proof fn lemma_marks_hit(o: Seq<Ev>, m: Seq<Ev>, h: NodeHandle, w: bool)
    requires marks_ok(o, m, w)
    ensures marks_ok(o, m.push(Ev::TableFind(h, true)).push(Ev::Mark(h, w)), w)
{
    reveal(marks_ok);
    let f = m.push(Ev::TableFind(h, true)).push(Ev::Mark(h, w));
    assert forall|i: int| o.len() <= i < f.len() && #[trigger] f[i] is Mark implies i > o.len() && f[i - 1] == Ev::TableFind(f[i]->Mark_0, true) && f[i]->Mark_1 == w by {
        if i < m.len() { assert(m[i] is Mark); }
    }
    assert forall|i: int| o.len() <= i < f.len() && #[trigger] f[i] is TableFind && f[i]->TableFind_1 implies i + 1 < f.len() && f[i + 1] == Ev::Mark(f[i]->TableFind_0, w) by {
        if i < m.len() { assert(m[i] is TableFind); }
    }
}
pub proof fn lemma_marks_refl(o: Seq<Ev>, w: bool) ensures marks_ok(o, o, w) { reveal(marks_ok); }
pub proof fn lemma_marks_trans(o: Seq<Ev>, m: Seq<Ev>, f: Seq<Ev>, w: bool)
    requires marks_ok(o, m, w), marks_ok(m, f, w)
    ensures marks_ok(o, f, w)
{
    reveal(marks_ok);
    assert forall|i: int| o.len() <= i < f.len() && #[trigger] f[i] is Mark implies i > o.len() && f[i - 1] == Ev::TableFind(f[i]->Mark_0, true) && f[i]->Mark_1 == w by {
        if i < m.len() { assert(m[i] is Mark); assert(f[i - 1] == m[i - 1]); }
    }
    assert forall|i: int| o.len() <= i < f.len() && #[trigger] f[i] is TableFind && f[i]->TableFind_1 implies i + 1 < f.len() && f[i + 1] == Ev::Mark(f[i]->TableFind_0, w) by {
        if i < m.len() { assert(m[i] is TableFind); assert(f[i + 1] == m[i + 1]); }
    }
}
pub open spec fn no_table_add(o: Seq<Ev>, f: Seq<Ev>) -> bool { extends(o, f) && forall|i: int| o.len() <= i < f.len() ==> !(#[trigger] f[i] is TableAdd) }
pub open spec fn no_yield(o: Seq<Ev>, f: Seq<Ev>) -> bool { extends(o, f) && forall|i: int| o.len() <= i < f.len() ==> !(#[trigger] f[i] is Yield) }
// TRUSTED: derived Hash/Eq on ActionID (a u64) agree
pub broadcast axiom fn actionid_key_model() ensures #[trigger] obeys_key_model::<ActionID>();

// TRUSTED: std
pub assume_specification<T, E> [std::result::Result::<T, E>::unwrap_or] (r: std::result::Result<T, E>, d: T) -> (o: T)
    where E: std::marker::Destruct, T: std::marker::Destruct
    ensures o == (match r { Ok(v) => v, Err(_) => d });
// ---- tokio::sync::mpsc stand-in: the search result stream; every item handed to it is a Yield event
pub mod mpsc {
    use super::*;
    pub struct UnboundedSender<T> { pub t: core::marker::PhantomData<T> }
    pub struct UnboundedReceiver<T> { pub t: core::marker::PhantomData<T> }
    #[verifier::external_body]
    pub fn unbounded_channel<T>() -> (UnboundedSender<T>, UnboundedReceiver<T>) { unimplemented!() }
    impl<T> UnboundedReceiver<T> {
        #[verifier::external_body]
        pub fn recv(&mut self) -> Option<T> { unimplemented!() }
    }
    impl UnboundedSender<SocketAddr> {
        #[verifier::external_body]
        pub fn send(&self, v: SocketAddr, Tracked(tr): Tracked<&mut Trace>) -> (r: Result<(), ()>)
            ensures final(tr).ev == old(tr).ev.push(Ev::Yield(v))
        { unimplemented!() }
    }
}
// TRUSTED: derived Hash/Eq on NodeHandle and TransactionID (plain data) agree
pub broadcast axiom fn nodehandle_key_model() ensures #[trigger] obeys_key_model::<NodeHandle>();
pub broadcast axiom fn tid_key_model() ensures #[trigger] obeys_key_model::<TransactionID>();
impl InfoHash {
    // flip_bit panics for index >= 160 (info_hash.rs:78-87): the precondition is an obligation at every call site
    #[verifier::external_body]
    pub fn flip_bit(self, index: usize) -> InfoHash requires index < 160 { unimplemented!() }
}
