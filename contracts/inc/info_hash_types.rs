// ================= info_hash.rs (types only; bit-level facts come from Kani) =================
//@begin const src/info_hash.rs - INFO_HASH_LEN
pub const INFO_HASH_LEN: usize = 20;
//@end
//@begin type src/info_hash.rs - struct InfoHash
#[derive(Structural, Copy, Clone, PartialEq, Eq, Hash)]
pub struct InfoHash(pub [u8; INFO_HASH_LEN]);
//@end
//@begin type src/info_hash.rs - type NodeId
pub type NodeId = InfoHash;
//@end
// TRUSTED: derived Hash/Eq on InfoHash (plain bytes) agree
pub broadcast axiom fn infohash_key_model() ensures #[trigger] obeys_key_model::<InfoHash>();
