// ---- lookup stand-in: contracts of the entry points used by the handler (recv_finished is proved in unit `lookup`)
pub struct TableLookup { pub g: u64 }
/// C04: what the search would report (defined in unit `lookup`: Ongoing while a query is outstanding or the end-game runs)
pub uninterp spec fn status_of(l: TableLookup) -> ActionStatus;
impl TableLookup {
    // proved in unit `lookup` (recv_response / recv_timeout on their real text, the node selection in the middle of recv_response abstracted):
    // a search only sends queries, yields peers, marks nodes and uses its timeouts
    #[verifier::external_body]
    pub fn recv_response(&mut self, node: Node, trans_id: &TransactionID, msg: Response, socket: &Socket, timer: &mut Timer<ScheduledTaskCheck>, Tracked(tr): Tracked<&mut Trace>) -> (res: ActionStatus)
        requires old(timer).wf()
        ensures only_requests_and_yields(old(tr).ev, final(tr).ev), no_new_refresh(*old(timer), *final(timer)), res == status_of(*final(self))
    { unimplemented!() }
    #[verifier::external_body]
    pub fn recv_timeout(&mut self, trans_id: &TransactionID, socket: &Socket, timer: &mut Timer<ScheduledTaskCheck>, Tracked(tr): Tracked<&mut Trace>) -> (res: ActionStatus)
        requires old(timer).wf()
        ensures only_requests_and_yields(old(tr).ev, final(tr).ev), no_new_refresh(*old(timer), *final(timer)), res == status_of(*final(self))
    { unimplemented!() }
    // proved in unit `lookup` (recv_finished sends only announce_peer requests)
    #[verifier::external_body]
    pub fn recv_finished(&mut self, port: Option<u16>, socket: &Socket, Tracked(tr): Tracked<&mut Trace>)
        ensures only_requests_and_yields(old(tr).ev, final(tr).ev)
    { unimplemented!() }
    #[verifier::external_body]
    pub fn completed(&self) -> bool { unimplemented!() }
    // proved in unit `lookup` (TableLookup::new on its real text; the node-list helpers insert_sorted_node / pick_initial_nodes are assumed there):
    // creating a search is the (ghost) LookupStart event, followed by its first round of queries
    #[verifier::external_body]
    pub fn new(target_id: InfoHash, will_announce: bool, tx: mpsc::UnboundedSender<SocketAddr>, id_generator: MIDGenerator,
               table: Arc<Mutex<RoutingTable>>, socket: &Socket, timer: &mut Timer<ScheduledTaskCheck>, Tracked(tr): Tracked<&mut Trace>) -> (r: TableLookup)
        requires old(timer).wf()
        ensures final(tr).ev.len() > old(tr).ev.len(), final(tr).ev[old(tr).ev.len() as int] == Ev::LookupStart(target_id, will_announce),
            only_requests_and_yields(old(tr).ev.push(Ev::LookupStart(target_id, will_announce)), final(tr).ev),
            no_new_refresh(*old(timer), *final(timer))
    { unimplemented!() }
}
//@begin type src/action/mod.rs - struct StartLookup
pub struct StartLookup {
    pub info_hash: InfoHash,
    pub announce: bool,
    pub tx: mpsc::UnboundedSender<SocketAddr>,
}
//@end
// action id generator: stand-in (proved in unit `txid`: successive activities get distinct 5-byte prefixes)
pub struct AIDGenerator { pub g: u64 }
impl AIDGenerator {
    #[verifier::external_body]
    pub fn new() -> AIDGenerator { unimplemented!() }
    #[verifier::external_body]
    pub fn generate(&mut self) -> MIDGenerator { unimplemented!() }
}
// TRUSTED: std::mem::take leaves Default::default() behind and returns the old value; Vec's default is empty
pub uninterp spec fn is_default<T>(t: T) -> bool;
pub assume_specification<T> [std::mem::take] (x: &mut T) -> (r: T) where T: std::default::Default
    ensures r == *old(x), is_default(*final(x));
pub broadcast axiom fn vec_default_is_empty<T>(v: Vec<T>) ensures #[trigger] is_default(v) ==> v@.len() == 0;



// TRUSTED std contract (not used by the pinned code; lets a change that uses it be judged): Vec::dedup_by_key keeps a subsequence of the vector --
// only that it never grows and keeps its first element is stated
pub assume_specification<T, A, F, K> [std::vec::Vec::<T, A>::dedup_by_key] (v: &mut std::vec::Vec<T, A>, key: F)
    where A: std::alloc::Allocator, F: FnMut(&mut T) -> K, K: PartialEq
    ensures final(v)@.len() <= old(v)@.len(), old(v)@.len() > 0 ==> final(v)@.len() > 0 && final(v)@[0] == old(v)@[0];
