// ================= action/lookup.rs =================
// TRUSTED std contracts
pub assume_specification<'a, K, V, S, A, Q> [std::collections::HashMap::<K, V, S, A>::get_mut] (m: &'a mut std::collections::HashMap<K, V, S, A>, k: &Q) -> (r: std::option::Option<&'a mut V>)
    where
    A: std::alloc::Allocator,
    K: std::cmp::Eq + std::hash::Hash + std::borrow::Borrow<Q>,
    Q: std::marker::MetaSized + std::hash::Hash + std::cmp::Eq + ?Sized,
    S: std::hash::BuildHasher,
    ensures obeys_key_model::<K>() && builds_valid_hashers::<S>() ==> match r {
            Some(v) => contains_borrowed_key(old(m)@, k) && maps_borrowed_key_to_value(old(m)@, k, *v)
                && contains_borrowed_key(final(m)@, k) && maps_borrowed_key_to_value(final(m)@, k, *final(v))
                && (forall|rest: Map<K, V>| #[trigger] borrowed_key_removed(old(m)@, rest, k) ==> borrowed_key_removed(final(m)@, rest, k)),
            None => !contains_borrowed_key(old(m)@, k) && final(m)@ == old(m)@,
        };

//@begin const src/action/lookup.rs - ANNOUNCE_PICK_NUM props=C03
pub const ANNOUNCE_PICK_NUM: usize = 8;
//@end
//@begin type src/action/lookup.rs - type Distance
pub type Distance = InfoHash;
//@end
//@begin type src/action/lookup.rs - type DistanceToBeat
pub type DistanceToBeat = InfoHash;
//@end
//@begin type src/action/lookup.rs - struct TableLookup drop=tx,requested_nodes
pub struct TableLookup {
    pub table: Arc<Mutex<RoutingTable>>,
    pub this_node_id: NodeId,
    pub ip_version: IpVersion,
    pub target_id: InfoHash,
    pub in_endgame: bool,
    pub recv_values: bool,
    pub id_generator: MIDGenerator,
    pub will_announce: bool,
    pub active_lookups: HashMap<TransactionID, (DistanceToBeat, Timeout)>,
    pub announce_tokens: HashMap<NodeHandle, Vec<u8>>,
    pub all_sorted_nodes: Vec<(Distance, NodeHandle, bool)>,
}
//@end

/// C03: what an announce must look like, relative to the search state at the moment it finishes
pub open spec fn announce_ok(l: TableLookup, port: Option<u16>, e: Ev) -> bool {
    e matches Ev::Send(m, addr) && m.body matches MessageBody::Request(Request::AnnouncePeer(a))
    && a.id == l.this_node_id && a.info_hash == l.target_id && a.port == port && m.transaction_id@.len() == 8
    && (forall|t: TransactionID| #[trigger] t.bytes@ == m.transaction_id@ ==> tid_value(t) >> 24 == l.id_generator.action_id >> 24)
    && exists|h: NodeHandle| #[trigger] l.announce_tokens@.contains_key(h) && h.addr == addr && l.announce_tokens@[h]@ == a.token@
}
/// number of messages sent between o and f
pub open spec fn send_count(o: Seq<Ev>, f: Seq<Ev>) -> nat
    decreases f.len()
{
    if f.len() <= o.len() { 0 } else { send_count(o, f.drop_last()) + (if f.last() is Send { 1nat } else { 0nat }) }
}
pub open spec fn announces_le_8(o: Seq<Ev>, f: Seq<Ev>) -> bool { send_count(o, f) <= 8 }
pub proof fn lemma_send_count_step(o: Seq<Ev>, m: Seq<Ev>, f: Seq<Ev>)
    requires o.len() <= m.len(), extends(m, f), f.len() <= m.len() + 2, f.len() >= m.len() + 1, f[m.len() as int] is Send, f.len() == m.len() + 2 ==> !(f[m.len() as int + 1] is Send)
    ensures send_count(o, f) == send_count(o, m) + 1
{
    let f1 = f.subrange(0, m.len() as int + 1);
    assert(f1.drop_last() =~= m);
    assert(f1.last() == f[m.len() as int]);
    assert(send_count(o, f1) == send_count(o, m) + 1);
    if f.len() == m.len() + 2 {
        assert(f.drop_last() =~= f1);
        assert(f.last() == f[m.len() as int + 1]);
        assert(send_count(o, f) == send_count(o, f1));
    } else {
        assert(f =~= f1);
    }
}

impl TableLookup {
//@begin fn src/action/lookup.rs impl:TableLookup completed props=C03
    pub fn completed(&self) -> (r: bool)
        ensures r == (self.active_lookups@.len() == 0),
    {
        broadcast use vstd::std_specs::hash::group_hash_axioms, tid_key_model;
        self.active_lookups.is_empty()
    }
//@end

//@begin fn src/action/lookup.rs impl:TableLookup recv_finished rules=R-deasync props=C03,C19
    pub fn recv_finished(&mut self, port: Option<u16>, socket: &Socket, Tracked(tr): Tracked<&mut Trace>)
        ensures
            !old(self).will_announce ==> final(tr).ev == old(tr).ev, // @C03.never_announces_when_not_requested
            announces_le_8(old(tr).ev, final(tr).ev), // @C03.at_most_8_announces_per_search
            // every datagram sent is an announce_peer to a node that answered this search with a token, carrying that node's
            // (latest recorded) token, the searched info-hash, our id, the configured port and an 8-byte transaction id of this search
            forall|i: int| old(tr).ev.len() <= i < final(tr).ev.len() && #[trigger] final(tr).ev[i] is Send ==> announce_ok(*old(self), port, final(tr).ev[i]), // @C03.announce_only_to_token_holders_with_their_token
            only_requests_and_yields(old(tr).ev, final(tr).ev), no_yield(old(tr).ev, final(tr).ev), // @C03.finishing_yields_nothing
            final(self).active_lookups@.len() == 0 && !final(self).in_endgame,
    {
        broadcast use vstd::std_specs::hash::group_hash_axioms, nodehandle_key_model, tid_key_model;
        proof { lemma_consts(); }
        let ghost ev0 = tr.ev;
        // Announce if we were told to
        if self.will_announce {
            // Partial borrow so the filter function doesnt capture all of self
            let announce_tokens = &self.announce_tokens;

            for (_, node, _) in it: self
                .all_sorted_nodes
                .iter()
                .filter(|p: &&(Distance, NodeHandle, bool)| -> (b: bool) ensures b == announce_tokens@.contains_key(p.1) { let (_, node, _) = p; announce_tokens.contains_key(node) })
                .take(ANNOUNCE_PICK_NUM)
                invariant it.index@ <= 8, tr.ev.len() == ev0.len() + 2 * it.index@ || tr.ev.len() < ev0.len() + 2 * it.index@, ev0.len() <= tr.ev.len(),
                    send_count(ev0, tr.ev) <= it.index@,
                    announce_tokens@ == old(self).announce_tokens@, self.this_node_id == old(self).this_node_id, self.target_id == old(self).target_id,
                    self.id_generator.action_id == old(self).id_generator.action_id,
                    forall|i: int| ev0.len() <= i < tr.ev.len() && #[trigger] tr.ev[i] is Send ==> announce_ok(*old(self), port, tr.ev[i]),
                    only_requests_and_yields(ev0, tr.ev), no_yield(ev0, tr.ev),
            {
                broadcast use vstd::std_specs::hash::group_hash_axioms, nodehandle_key_model;
                let ghost evb = tr.ev;
                let trans_id = self.id_generator.generate();
                let token = announce_tokens.get(node).unwrap();

                let announce_peer_req = AnnouncePeerRequest {
                    id: self.this_node_id,
                    info_hash: self.target_id,
                    token: token.clone(),
                    port,
                };
                let announce_peer_msg = Message {
                    transaction_id: trans_id.as_ref().to_vec(),
                    body: MessageBody::Request(Request::AnnouncePeer(announce_peer_req)),
                };

                match socket.send(&announce_peer_msg, node.addr, Tracked(tr)) {
                    Ok(()) => {
                        // We requested from the node, marke it down if the node is in our routing table
                        if let Some(n) = self.table.lock().unwrap().find_node_mut(node, Tracked(tr)) {
                            n.local_request()
                        }
                    }
                    Err(error) => {
                        ()
                    }
                }
                proof {
                    assert forall|t: TransactionID| #[trigger] t.bytes@ == announce_peer_msg.transaction_id@ implies t == trans_id by { assert(t.bytes =~= trans_id.bytes); }
                    lemma_send_count_step(ev0, evb, tr.ev);
                }
            }
        }

        // This may not be cleared since we didnt set a timeout for each node, any nodes that didnt respond would still be in here.
        self.active_lookups.clear();
        self.in_endgame = false;
    }
//@end

//@begin fn src/action/lookup.rs impl:TableLookup current_lookup_status nopub=1
    fn current_lookup_status(&self) -> (r: ActionStatus)
        ensures r == (if self.in_endgame || self.active_lookups@.len() != 0 { ActionStatus::Ongoing } else { ActionStatus::Completed }),
    {
        broadcast use vstd::std_specs::hash::group_hash_axioms, tid_key_model;
        if self.in_endgame || !self.active_lookups.is_empty() {
            ActionStatus::Ongoing
        } else {
            ActionStatus::Completed
        }
    }
//@end
}
