// ================= action/lookup.rs =================
// TRUSTED std contracts
pub assume_specification<'a, K, V, S, A, Q> [std::collections::HashMap::<K, V, S, A>::get_mut] (m: &'a mut std::collections::HashMap<K, V, S, A>, k: &Q) -> (r: std::option::Option<&'a mut V>)
    where
    A: std::alloc::Allocator,
    K: std::cmp::Eq + std::hash::Hash + std::borrow::Borrow<Q>,
    Q: std::marker::MetaSized + std::hash::Hash + std::cmp::Eq + ?Sized,
    S: std::hash::BuildHasher,
    ensures obeys_key_model::<K>() && builds_valid_hashers::<S>() ==> match r {
            Some(v) => contains_borrowed_key(old(m)@, k) && maps_borrowed_key_to_value(old(m)@, k, *v)
                && contains_borrowed_key(final(m)@, k) && maps_borrowed_key_to_value(final(m)@, k, *final(v))
                && (forall|rest: Map<K, V>| #[trigger] borrowed_key_removed(old(m)@, rest, k) ==> borrowed_key_removed(final(m)@, rest, k)),
            None => !contains_borrowed_key(old(m)@, k) && final(m)@ == old(m)@,
        };

//@begin const src/action/lookup.rs - ITERATIVE_PICK_NUM
pub const ITERATIVE_PICK_NUM: usize = 3;
//@end
//@begin const src/action/lookup.rs - ANNOUNCE_PICK_NUM props=C03
pub const ANNOUNCE_PICK_NUM: usize = 8;
//@end
//@begin type src/action/lookup.rs - type Distance
pub type Distance = InfoHash;
//@end
//@begin type src/action/lookup.rs - type DistanceToBeat
pub type DistanceToBeat = InfoHash;
//@end
//@begin type src/action/lookup.rs - struct TableLookup
pub struct TableLookup {
    pub table: Arc<Mutex<RoutingTable>>,
    pub this_node_id: NodeId,
    pub ip_version: IpVersion,
    pub target_id: InfoHash,
    pub in_endgame: bool,
    pub recv_values: bool,
    pub id_generator: MIDGenerator,
    pub will_announce: bool,
    pub active_lookups: HashMap<TransactionID, (DistanceToBeat, Timeout)>,
    pub announce_tokens: HashMap<NodeHandle, Vec<u8>>,
    pub requested_nodes: HashSet<NodeHandle>,
    pub all_sorted_nodes: Vec<(Distance, NodeHandle, bool)>,
    pub tx: mpsc::UnboundedSender<SocketAddr>,
}
//@end

/// C03: what an announce must look like, relative to the search state at the moment it finishes
pub open spec fn announce_ok(l: TableLookup, port: Option<u16>, e: Ev) -> bool {
    e matches Ev::Send(m, addr) && m.body matches MessageBody::Request(Request::AnnouncePeer(a))
    && a.id == l.this_node_id && a.info_hash == l.target_id && a.port == port && m.transaction_id@.len() == 8
    && (forall|t: TransactionID| #[trigger] t.bytes@ == m.transaction_id@ ==> tid_value(t) >> 24 == l.id_generator.action_id >> 24)
    && exists|h: NodeHandle| #[trigger] l.announce_tokens@.contains_key(h) && h.addr == addr && l.announce_tokens@[h]@ == a.token@
}
/// number of messages sent between o and f
pub open spec fn send_count(o: Seq<Ev>, f: Seq<Ev>) -> nat
    decreases f.len()
{
    if f.len() <= o.len() { 0 } else { send_count(o, f.drop_last()) + (if f.last() is Send { 1nat } else { 0nat }) }
}
pub open spec fn announces_le_8(o: Seq<Ev>, f: Seq<Ev>) -> bool { send_count(o, f) <= 8 }
pub proof fn lemma_send_count_step(o: Seq<Ev>, m: Seq<Ev>, f: Seq<Ev>)
    requires o.len() <= m.len(), extends(m, f), f.len() <= m.len() + 3, f.len() >= m.len() + 1, f[m.len() as int] is Send,
        forall|i: int| m.len() < i < f.len() ==> !(#[trigger] f[i] is Send)
    ensures send_count(o, f) == send_count(o, m) + 1
{
    let f1 = f.subrange(0, m.len() as int + 1);
    assert(f1.drop_last() =~= m);
    assert(f1.last() == f[m.len() as int]);
    assert(send_count(o, f1) == send_count(o, m) + 1);
    if f.len() >= m.len() + 2 {
        let f2 = f.subrange(0, m.len() as int + 2);
        assert(f2.drop_last() =~= f1);
        assert(f2.last() == f[m.len() as int + 1]);
        assert(send_count(o, f2) == send_count(o, f1));
        if f.len() == m.len() + 3 {
            assert(f.drop_last() =~= f2);
            assert(f.last() == f[m.len() as int + 2]);
            assert(send_count(o, f) == send_count(o, f2));
        } else {
            assert(f =~= f2);
        }
    } else {
        assert(f =~= f1);
    }
}


/// the addresses handed to the search stream so far, in order
pub open spec fn yields(ev: Seq<Ev>) -> Seq<SocketAddr>
    decreases ev.len()
{
    if ev.len() == 0 { Seq::empty() } else {
        let p = yields(ev.drop_last());
        match ev.last() { Ev::Yield(a) => p.push(a), _ => p }
    }
}
pub open spec fn no_replies(o: Seq<Ev>, f: Seq<Ev>) -> bool {
    extends(o, f) && forall|i: int| o.len() <= i < f.len() ==> match #[trigger] f[i] { Ev::Send(m, _) => m.body is Request, Ev::TableAdd(_, _) => false, _ => true }
}
pub proof fn lemma_yields_push(o: Seq<Ev>, e: Ev)
    ensures yields(o.push(e)) == (match e { Ev::Yield(a) => yields(o).push(a), _ => yields(o) })
{
    assert(o.push(e).drop_last() =~= o);
}
pub proof fn lemma_yields_quiet(o: Seq<Ev>, f: Seq<Ev>)
    requires no_yield(o, f)
    ensures yields(f) == yields(o)
    decreases f.len() - o.len()
{
    if f.len() == o.len() { assert(f =~= o); } else {
        let d = f.drop_last();
        assert(no_yield(o, d));
        lemma_yields_quiet(o, d);
    }
}
//@begin const src/action/lookup.rs - INITIAL_PICK_NUM
pub const INITIAL_PICK_NUM: usize = 4;
//@end
pub mod bucket {
//@begin const src/bucket.rs - MAX_BUCKET_SIZE
    pub const MAX_BUCKET_SIZE: usize = 8;
//@end
}
// TRUSTED std contracts used by the node-selection helpers
// <[T]>::binary_search_by: only the index range of the answer is assumed (what the closure orders by is not needed by any claimed clause)
pub assume_specification<'a, T, F: FnMut(&'a T) -> std::cmp::Ordering>[ <[T]>::binary_search_by ](s: &'a [T], f: F) -> (r: Result<usize, usize>)
    ensures match r { Ok(i) => i < s@.len(), Err(i) => i <= s@.len() };
// derived PartialOrd / Ord on InfoHash (lexicographic on the 20 bytes; info_hash.rs:15): opaque here, no ordering fact is used
impl PartialOrd for InfoHash { #[verifier::external_body] fn partial_cmp(&self, o: &InfoHash) -> Option<std::cmp::Ordering> { unimplemented!() } }
impl Ord for InfoHash { #[verifier::external_body] fn cmp(&self, o: &InfoHash) -> std::cmp::Ordering { unimplemented!() } }
impl vstd::std_specs::convert::FromSpecImpl<[u8; INFO_HASH_LEN]> for InfoHash {
    open spec fn obeys_from_spec() -> bool { true }
    open spec fn from_spec(hash: [u8; INFO_HASH_LEN]) -> InfoHash { InfoHash(hash) }
}
impl From<[u8; INFO_HASH_LEN]> for InfoHash {
//@begin fn src/info_hash.rs impl:From<[u8;INFO_HASH_LEN]>@for@InfoHash from
    fn from(hash: [u8; INFO_HASH_LEN]) -> (r: InfoHash) ensures r == InfoHash(hash) {
        Self(hash)
    }
//@end
}
// TRUSTED stand-in (rule R-extconst) for SocketAddr::from((Ipv4Addr::UNSPECIFIED, 0)): some socket address
#[verifier::external_body]
pub fn vx_unspecified_addr() -> SocketAddr { unimplemented!() }
/// VERIFIED helper (rule R-fold): Iterator::fold by its definition
#[verifier::exec_allows_no_decreases_clause]
pub fn vx_fold<I: Iterator, B, F: Fn(B, I::Item) -> B>(it: I, init: B, f: F) -> (r: B)
    requires forall|b: B, x: I::Item| #[trigger] call_requires(f, (b, x)),
{
    let mut it = it;
    let mut acc = init;
    loop
        invariant forall|b: B, x: I::Item| #[trigger] call_requires(f, (b, x)),
    {
        let nx = it.next();
        if nx.is_none() { break; }
        acc = f(acc, nx.unwrap());
    }
    acc
}

//@begin fn src/action/lookup.rs - pick_initial_nodes props=C03,C02
#[verifier::exec_allows_no_decreases_clause]
pub fn pick_initial_nodes<'a, I>(sorted_nodes: I) -> [(NodeHandle, bool); INITIAL_PICK_NUM]
where
    I: Iterator<Item = &'a mut (Distance, NodeHandle, bool)>,
{
    let dummy_id = [0u8; INFO_HASH_LEN].into();
    let default = (
        NodeHandle::new(dummy_id, vx_unspecified_addr()),
        false,
    );

    let mut pick_nodes = [default; INITIAL_PICK_NUM];
    let mut vx_it = sorted_nodes.zip(pick_nodes.iter_mut());
    loop {
        let vx_nx = vx_it.next();
        if vx_nx.is_none() {
            break;
        }
        let (src, dst) = vx_nx.unwrap();
        dst.0 = src.1;
        dst.1 = true;

        // Mark that the node has been requested from
        src.2 = true;
    }

    pick_nodes
}
//@end

//@begin fn src/action/lookup.rs - pick_iterate_nodes props=C03,C02
#[verifier::exec_allows_no_decreases_clause]
pub fn pick_iterate_nodes<I>(
    unsorted_nodes: I,
    target_id: InfoHash,
) -> [(NodeHandle, bool); ITERATIVE_PICK_NUM]
where
    I: Iterator<Item = NodeHandle>,
{
    let dummy_id = [0u8; INFO_HASH_LEN].into();
    let default = (
        NodeHandle::new(dummy_id, vx_unspecified_addr()),
        false,
    );

    let mut pick_nodes = [default; ITERATIVE_PICK_NUM];
    let mut vx_it = unsorted_nodes;
    loop {
        let vx_nx = vx_it.next();
        if vx_nx.is_none() {
            break;
        }
        let node = vx_nx.unwrap();
        insert_closest_nodes(&mut pick_nodes, target_id, node);
    }

    pick_nodes
}
//@end

//@begin fn src/action/lookup.rs - insert_closest_nodes props=C03,C02
pub fn insert_closest_nodes(
    nodes: &mut [(NodeHandle, bool)],
    target_id: InfoHash,
    new_node: NodeHandle,
) {
    let new_distance = target_id ^ new_node.id;

    for (old_node, used) in nodes.iter_mut() {
        if !*used {
            // Slot was not in use, go ahead and place the node
            *old_node = new_node;
            *used = true;
            return;
        } else {
            // Slot is in use, see if our node is closer to the target
            let old_distance = target_id ^ old_node.id;

            if new_distance < old_distance {
                *old_node = new_node;
                return;
            }
        }
    }
}
//@end

//@begin fn src/action/lookup.rs - insert_sorted_node props=C03,C02
pub fn insert_sorted_node(
    nodes: &mut Vec<(Distance, NodeHandle, bool)>,
    target: InfoHash,
    node: NodeHandle,
    pinged: bool,
) {
    let node_id = node.id;
    let node_dist = target ^ node_id;

    // Perform a search by distance from the target id
    let search_result = nodes.binary_search_by(|p: &(Distance, NodeHandle, bool)| -> (o: std::cmp::Ordering) { { let (dist, _, _) = p; dist.cmp(&node_dist) } });
    match search_result {
        Ok(dup_index) => {
            // TODO: Bug here, what happens when multiple nodes with the same distance are
            // present, but we dont get the index of the duplicate node (its in the list) from
            // the search, then we would have a duplicate node in the list!
            // Insert only if this node is different (it is ok if they have the same id)
            if nodes[dup_index].1 != node {
                nodes.insert(dup_index, (node_dist, node, pinged));
            }
        }
        Err(ins_index) => nodes.insert(ins_index, (node_dist, node, pinged)),
    };
}
//@end
// TRUSTED: InfoHash ^ InfoHash (info_hash.rs:140-150, bytewise xor; bit-level facts come from Kani)
pub uninterp spec fn ih_xor(a: InfoHash, b: InfoHash) -> InfoHash;
impl vstd::std_specs::ops::BitXorSpecImpl<InfoHash> for InfoHash {
    open spec fn obeys_bitxor_spec() -> bool { true }
    open spec fn bitxor_req(self, rhs: InfoHash) -> bool { true }
    open spec fn bitxor_spec(self, rhs: InfoHash) -> InfoHash { ih_xor(self, rhs) }
}
impl std::ops::BitXor for InfoHash {
    type Output = InfoHash;
    #[verifier::external_body]
    fn bitxor(self, rhs: InfoHash) -> InfoHash { unimplemented!() }
}
//@begin const src/action/lookup.rs - ENDGAME_TIMEOUT props=C04
pub exec const ENDGAME_TIMEOUT: Duration ensures dur_nanos(ENDGAME_TIMEOUT) == 1_500_000_000 { Duration::from_millis(1500) }
//@end
//@begin const src/action/lookup.rs - LOOKUP_TIMEOUT props=C04
pub exec const LOOKUP_TIMEOUT: Duration ensures dur_nanos(LOOKUP_TIMEOUT) == 1_500_000_000 { Duration::from_millis(1500) }
//@end
/// a get_peers query of this search: 8-byte id with the search's action prefix, own id, searched info-hash, no `want`
pub open spec fn lookup_query(l: TableLookup, e: Ev) -> bool {
    e matches Ev::Send(m, _) && m.body matches MessageBody::Request(Request::GetPeers(g))
    && g.id == l.this_node_id && g.info_hash == l.target_id && g.want is None && m.transaction_id@.len() == 8
    && (forall|t: TransactionID| #[trigger] t.bytes@ == m.transaction_id@ ==> tid_value(t) >> 24 == l.id_generator.action_id >> 24)
}

/// C03: every id this search is waiting for is an id of this search (its generator's 5-byte action prefix); established by `new`,
/// preserved by every operation -- so "an outstanding query" is always a query this very search registered
pub open spec fn outstanding_ids_ok(l: TableLookup) -> bool {
    forall|t: TransactionID| #[trigger] l.active_lookups@.contains_key(t) ==> tid_value(t) >> 24 == l.id_generator.action_id >> 24
}

/// C04: a timer entry of this search (its queries' timeouts and its end-game timeout carry ids of the search)
pub open spec fn entry_of(l: TableLookup, v: ScheduledTaskCheck) -> bool {
    match v {
        ScheduledTaskCheck::LookupTimeout(t) => tid_value(t) >> 24 == l.id_generator.action_id >> 24,
        ScheduledTaskCheck::LookupEndGame(t) => tid_value(t) >> 24 == l.id_generator.action_id >> 24,
        ScheduledTaskCheck::TableRefresh => false,
    }
}
/// C04 ("never stuck"): what keeps a live search going.  Outside the end-game every outstanding query -- except `fired`, the one
/// whose timeout has just fired and is being handled -- owns a pending timeout that will report exactly this query; in the end-game
/// an end-game timeout of this search is pending.  So whenever a search is not finished some pending timer entry will wake it.
pub open spec fn wake_ok(l: TableLookup, t: Timer<ScheduledTaskCheck>, fired: Option<TransactionID>) -> bool {
    &&& (!l.in_endgame ==> forall|tid: TransactionID| #[trigger] l.active_lookups@.contains_key(tid) && Some(tid) != fired
            ==> t.pending@.contains_key(l.active_lookups@[tid].1) && t.pending@[l.active_lookups@[tid].1] == ScheduledTaskCheck::LookupTimeout(tid))
    &&& (l.in_endgame ==> exists|k: Timeout| #[trigger] t.pending@.contains_key(k) && t.pending@[k] is LookupEndGame && entry_of(l, t.pending@[k]))
}
/// C04: a search removes no timer entry but its own
pub open spec fn others_kept(l: TableLookup, o: Timer<ScheduledTaskCheck>, f: Timer<ScheduledTaskCheck>) -> bool {
    forall|k: Timeout| #[trigger] o.pending@.contains_key(k) && !entry_of(l, o.pending@[k]) ==> f.pending@.contains_key(k) && f.pending@[k] == o.pending@[k]
}
/// C04: every timeout scheduled between o and f fires 1.5 s after it was scheduled
pub open spec fn new_timeouts_1500ms(o: Timer<ScheduledTaskCheck>, f: Timer<ScheduledTaskCheck>) -> bool {
    forall|k: Timeout| #[trigger] f.pending@.contains_key(k) && k.id >= o.next_id ==> k.deadline.t as int == tclock() + 1_500_000_000
}
pub open spec fn status_of(l: TableLookup) -> ActionStatus {
    if l.in_endgame || l.active_lookups@.len() != 0 { ActionStatus::Ongoing } else { ActionStatus::Completed }
}
/// number of messages handed to the socket between o and f is zero
pub open spec fn nothing_sent(o: Seq<Ev>, f: Seq<Ev>) -> bool { forall|i: int| o.len() <= i < f.len() ==> !(#[trigger] f[i] is Send) }

impl TableLookup {
//@begin fn src/action/lookup.rs impl:TableLookup new rules=R-deasync props=C03,C19,C17,C04,C02
    #[verifier::exec_allows_no_decreases_clause]
    pub fn new(
        target_id: InfoHash,
        will_announce: bool,
        tx: mpsc::UnboundedSender<SocketAddr>,
        id_generator: MIDGenerator,
        table: Arc<Mutex<RoutingTable>>,
        socket: &Socket,
        timer: &mut Timer<ScheduledTaskCheck>,
        Tracked(tr): Tracked<&mut Trace>,
    ) -> (r: TableLookup)
        requires old(timer).wf()
        ensures r.target_id == target_id, r.will_announce == will_announce, r.id_generator.action_id == id_generator.action_id, !r.in_endgame,
            r.announce_tokens@.len() == 0, // @C03.new_search_knows_no_token
            outstanding_ids_ok(r), // @C03.outstanding_ids_belong_to_this_search
            marks_ok(old(tr).ev.push(Ev::LookupStart(target_id, will_announce)), final(tr).ev, true), // @C10.every_query_sent_is_recorded_on_the_queried_record @C12.a_query_we_send_is_never_recorded_as_a_query_received
            !r.recv_values, // @C02.the_end_game_sweep_is_never_switched_off
            // C04: a new search is either finished at once (no good node could be asked) or kept going by pending timeouts
            wake_ok(r, *final(timer), None), // @C04.every_outstanding_query_has_a_pending_timeout
            nothing_sent(old(tr).ev, final(tr).ev) ==> r.active_lookups@.len() == 0, // @C04.a_search_that_can_ask_nobody_is_finished_at_once
            new_timeouts_1500ms(*old(timer), *final(timer)), // @C04.query_timeout_is_1500_ms
            others_kept(r, *old(timer), *final(timer)), // @C04.a_search_removes_only_its_own_timer_entries
            // creating a search is recorded as the (ghost) LookupStart event; what follows is its first round of queries
            final(tr).ev.len() > old(tr).ev.len(), final(tr).ev[old(tr).ev.len() as int] == Ev::LookupStart(target_id, will_announce),
            only_requests_and_yields(old(tr).ev.push(Ev::LookupStart(target_id, will_announce)), final(tr).ev), // @C03.first_round_only_queries
            no_yield(old(tr).ev, final(tr).ev), // @C03.first_round_only_queries
            no_new_refresh(*old(timer), *final(timer)),
            // the first round: get_peers queries of this search with 8-byte ids of this search
            forall|i: int| old(tr).ev.len() <= i < final(tr).ev.len() && #[trigger] final(tr).ev[i] is Send ==> lookup_query(r, final(tr).ev[i]), // @C19.lookup_queries_carry_8_byte_ids_of_the_search
            forall|i: int| old(tr).ev.len() <= i < final(tr).ev.len() && #[trigger] final(tr).ev[i] is Send ==> blen(final(tr).ev[i]->Send_0) <= 1500, // @C17.lookup_queries_fit_1500_bytes
    {
        proof {
            tr.ev = tr.ev.push(Ev::LookupStart(target_id, will_announce));
        }
        let ghost ev1 = tr.ev;
        // Pick a buckets worth of nodes and put them into the all_sorted_nodes list
        let mut all_sorted_nodes = Vec::with_capacity(bucket::MAX_BUCKET_SIZE);
        let mut vx_it = table
            .lock()
            .unwrap()
            .closest_nodes(target_id)
            .filter(|n: &&Node| -> (b: bool) { n.status() == NodeStatus::Good })
            .take(bucket::MAX_BUCKET_SIZE);
        loop
            invariant tr.ev == ev1, *timer == *old(timer),
        {
            let vx_nx = vx_it.next();
            if vx_nx.is_none() {
                break;
            }
            let node = vx_nx.unwrap();
            insert_sorted_node(&mut all_sorted_nodes, target_id, *node.handle(), false);
        }

        // Call pick_initial_nodes with the all_sorted_nodes list as an iterator
        let initial_pick_nodes = pick_initial_nodes(all_sorted_nodes.iter_mut());
        let initial_pick_nodes_filtered =
            initial_pick_nodes
                .iter()
                .filter(|p: &&(NodeHandle, bool)| -> (b: bool) { { let (_, good) = p; *good } })
                .map(|p: &(NodeHandle, bool)| -> (q: (&NodeHandle, DistanceToBeat)) { { let (node, _) = p; {
                    let distance_to_beat = node.id ^ target_id;

                    (node, distance_to_beat)
                } } });

        let this_node_id = table.lock().unwrap().node_id();

        // Construct the lookup table structure
        let mut table_lookup = TableLookup {
            table,
            this_node_id,
            ip_version: socket.ip_version(),
            target_id,
            in_endgame: false,
            recv_values: false,
            id_generator,
            will_announce,
            all_sorted_nodes,
            announce_tokens: HashMap::new(),
            requested_nodes: HashSet::new(),
            active_lookups: HashMap::with_capacity(INITIAL_PICK_NUM),
            tx,
        };
        let ghost l0 = table_lookup;

        // Call start_request_round with the list of initial_nodes (return even if the search completed...for now :D)
        table_lookup
            .start_request_round(initial_pick_nodes_filtered, socket, timer, Tracked(tr))
            ;
        proof {
            assert forall|i: int| old(tr).ev.len() <= i < tr.ev.len() && #[trigger] tr.ev[i] is Send implies lookup_query(table_lookup, tr.ev[i]) by {
                assert(lookup_query(l0, tr.ev[i]));
            }
        }

        table_lookup
    }
//@end

//@begin fn src/action/lookup.rs impl:TableLookup start_request_round rules=R-deasync props=C03,C19,C17,C04,C02
    #[verifier::exec_allows_no_decreases_clause]
    pub fn start_request_round<'a, I>(
        &mut self,
        nodes: I,
        socket: &Socket,
        timer: &mut Timer<ScheduledTaskCheck>,
        Tracked(tr): Tracked<&mut Trace>,
    ) where
        I: Iterator<Item = (&'a NodeHandle, DistanceToBeat)>,
        requires old(timer).wf()
        ensures only_requests_and_yields(old(tr).ev, final(tr).ev), no_yield(old(tr).ev, final(tr).ev), // @C03.request_round_only_queries
            outstanding_ids_ok(*old(self)) ==> outstanding_ids_ok(*final(self)), // @C03.outstanding_ids_belong_to_this_search
            marks_ok(old(tr).ev, final(tr).ev, true), // @C10.every_query_sent_is_recorded_on_the_queried_record @C12.a_query_we_send_is_never_recorded_as_a_query_received
            final(self).recv_values == old(self).recv_values, // @C02.the_end_game_sweep_is_never_switched_off
            // C04: every query registered by the round owns a pending 1.5 s timeout; older queries keep theirs; nobody else's timer entry is touched
            wake_ok(*old(self), *old(timer), None) ==> wake_ok(*final(self), *final(timer), None), // @C04.every_outstanding_query_has_a_pending_timeout
            new_timeouts_1500ms(*old(timer), *final(timer)), // @C04.query_timeout_is_1500_ms
            others_kept(*old(self), *old(timer), *final(timer)), // @C04.a_search_removes_only_its_own_timer_entries
            // C04: a round that handed at least one query to the socket keeps every older outstanding query; a round that could send nothing gives up
            final(self).active_lookups@.len() == 0 || (forall|t: TransactionID| #[trigger] old(self).active_lookups@.contains_key(t) ==> final(self).active_lookups@.contains_key(t)), // @C04.a_round_keeps_the_older_queries_unless_it_could_send_nothing_and_gives_up
            nothing_sent(old(tr).ev, final(tr).ev) ==> final(self).active_lookups@.len() == 0, // @C04.a_round_that_could_send_nothing_gives_up
            no_new_refresh(*old(timer), *final(timer)),
            final(self).announce_tokens == old(self).announce_tokens, final(self).will_announce == old(self).will_announce, // @C03.request_round_keeps_tokens
            final(self).target_id == old(self).target_id, final(self).this_node_id == old(self).this_node_id, final(self).in_endgame == old(self).in_endgame,
            final(self).id_generator.action_id == old(self).id_generator.action_id,
            // every datagram of the round is a get_peers query of this search with an 8-byte id of this search
            forall|i: int| old(tr).ev.len() <= i < final(tr).ev.len() && #[trigger] final(tr).ev[i] is Send ==> lookup_query(*old(self), final(tr).ev[i]), // @C19.lookup_queries_carry_8_byte_ids_of_the_search
            forall|i: int| old(tr).ev.len() <= i < final(tr).ev.len() && #[trigger] final(tr).ev[i] is Send ==> blen(final(tr).ev[i]->Send_0) <= 1500, // @C17.lookup_queries_fit_1500_bytes
    {
        broadcast use vstd::std_specs::hash::group_hash_axioms, tid_key_model;
        proof { lemma_consts(); }
        let ghost ev0 = tr.ev;
        proof { lemma_marks_refl(ev0, true); }
        // Loop through the given nodes
        let mut messages_sent = 0;
        let ghost mut sent_at: int = 0;
        let mut vx_it = nodes;
        loop
            invariant only_requests_and_yields(ev0, tr.ev), no_yield(ev0, tr.ev), // @C03.request_round_only_queries
                outstanding_ids_ok(*old(self)) ==> outstanding_ids_ok(*self), // @C03.outstanding_ids_belong_to_this_search
                marks_ok(ev0, tr.ev, true), // @C10.every_query_sent_is_recorded_on_the_queried_record @C12.a_query_we_send_is_never_recorded_as_a_query_received
                self.recv_values == old(self).recv_values, // @C02.the_end_game_sweep_is_never_switched_off
                timer.wf(), timer.next_id >= old(timer).next_id,
                wake_ok(*old(self), *old(timer), None) ==> wake_ok(*self, *timer, None), // @C04.every_outstanding_query_has_a_pending_timeout
                new_timeouts_1500ms(*old(timer), *timer), // @C04.query_timeout_is_1500_ms
                others_kept(*old(self), *old(timer), *timer), // @C04.a_search_removes_only_its_own_timer_entries
                forall|t: TransactionID| #[trigger] old(self).active_lookups@.contains_key(t) ==> self.active_lookups@.contains_key(t), // @C04.a_round_keeps_the_older_queries_unless_it_could_send_nothing_and_gives_up
                messages_sent > 0 ==> ev0.len() <= sent_at < tr.ev.len() && tr.ev[sent_at] is Send, messages_sent >= 0,
                no_new_refresh(*old(timer), *timer),
                self.announce_tokens == old(self).announce_tokens, self.will_announce == old(self).will_announce, // @C03.request_round_keeps_tokens
                self.target_id == old(self).target_id, self.this_node_id == old(self).this_node_id, self.in_endgame == old(self).in_endgame,
                self.id_generator.action_id == old(self).id_generator.action_id,
                forall|i: int| ev0.len() <= i < tr.ev.len() && #[trigger] tr.ev[i] is Send ==> lookup_query(*old(self), tr.ev[i]), // @C19.lookup_queries_carry_8_byte_ids_of_the_search
                forall|i: int| ev0.len() <= i < tr.ev.len() && #[trigger] tr.ev[i] is Send ==> blen(tr.ev[i]->Send_0) <= 1500, // @C17.lookup_queries_fit_1500_bytes
        {
            broadcast use vstd::std_specs::hash::group_hash_axioms, tid_key_model;
            let vx_nx = vx_it.next();
            if vx_nx.is_none() {
                break;
            }
            let (node, dist_to_beat) = vx_nx.unwrap();
            let ghost l1 = *self;
            let ghost t1 = *timer;
            // Generate a transaction id for this message
            let trans_id = self.id_generator.generate();

            // Try to start a timeout for the node
            let timeout =
                timer.schedule_in(LOOKUP_TIMEOUT, ScheduledTaskCheck::LookupTimeout(trans_id));

            // Associate the transaction id with the distance the returned nodes must beat and the timeout token
            self.active_lookups
                .insert(trans_id, (dist_to_beat, timeout));
            proof {
                if wake_ok(l1, t1, None) {
                    if !self.in_endgame {
                        assert forall|tid: TransactionID| #[trigger] self.active_lookups@.contains_key(tid) implies
                            timer.pending@.contains_key(self.active_lookups@[tid].1) && timer.pending@[self.active_lookups@[tid].1] == ScheduledTaskCheck::LookupTimeout(tid) by {
                            if tid != trans_id {
                                assert(l1.active_lookups@.contains_key(tid));
                                assert(t1.pending@.contains_key(l1.active_lookups@[tid].1));
                            }
                        }
                    } else {
                        let k = choose|k: Timeout| #[trigger] t1.pending@.contains_key(k) && t1.pending@[k] is LookupEndGame && entry_of(l1, t1.pending@[k]);
                        assert(timer.pending@.contains_key(k) && timer.pending@[k] == t1.pending@[k]);
                    }
                    assert(wake_ok(*self, *timer, None));
                }
            }

            // Send the message to the node
            let get_peers_msg = Message {
                transaction_id: trans_id.as_ref().to_vec(),
                body: MessageBody::Request(Request::GetPeers(GetPeersRequest {
                    id: self.this_node_id,
                    info_hash: self.target_id,
                    want: None,
                })),
            };
            proof {
                assert forall|t: TransactionID| #[trigger] t.bytes@ == get_peers_msg.transaction_id@ implies t == trans_id by { assert(t.bytes =~= trans_id.bytes); }
            }

            let ghost evs = tr.ev;
            if let Err(error) = socket.send(&get_peers_msg, node.addr, Tracked(tr)) {
                proof { lemma_marks_other(ev0, evs, Ev::Send(get_peers_msg, node.addr), true); }
                continue;
            }
            proof { sent_at = evs.len() as int; lemma_marks_other(ev0, evs, Ev::Send(get_peers_msg, node.addr), true); }

            // We requested from the node, mark it down
            self.requested_nodes.insert(*node);

            // Update the node in the routing table
            let ghost evf = tr.ev;
            if let Some(n) = self.table.lock().unwrap().find_node_mut(node, Tracked(tr)) {
                n.local_request(Tracked(tr))
            }
            proof {
                let k = evf.len() as int;
                if tr.ev.len() == k + 2 && extends(evf, tr.ev) && tr.ev[k] == Ev::TableFind(*node, true) && tr.ev[k + 1] == Ev::Mark(*node, true) {
                    lemma_marks_hit(ev0, evf, *node, true);
                    assert(tr.ev =~= evf.push(Ev::TableFind(*node, true)).push(Ev::Mark(*node, true)));
                } else if tr.ev.len() == k + 1 && extends(evf, tr.ev) && tr.ev[k] == Ev::TableFind(*node, false) {
                    lemma_marks_miss(ev0, evf, *node, true);
                    assert(tr.ev =~= evf.push(Ev::TableFind(*node, false)));
                }
            }

            proof {
                // ASSUMPTION A-round: fewer than 2^31 queries in one request round
                assume(messages_sent < i32::MAX);
            }
            messages_sent += 1;
        }

        proof { if messages_sent > 0 { assert(tr.ev[sent_at] is Send); } }
        if messages_sent == 0 {
            self.active_lookups.clear();
        }
    }
//@end

//@begin fn src/action/lookup.rs impl:TableLookup start_endgame_round rules=R-deasync props=C03,C19,C17,C04,C02
    #[verifier::exec_allows_no_decreases_clause]
    pub fn start_endgame_round(
        &mut self,
        socket: &Socket,
        timer: &mut Timer<ScheduledTaskCheck>,
        Tracked(tr): Tracked<&mut Trace>,
    ) -> (r: ActionStatus)
        requires old(timer).wf()
        ensures only_requests_and_yields(old(tr).ev, final(tr).ev), no_yield(old(tr).ev, final(tr).ev), // @C03.endgame_round_only_queries
            outstanding_ids_ok(*old(self)) ==> outstanding_ids_ok(*final(self)), // @C03.outstanding_ids_belong_to_this_search
            marks_ok(old(tr).ev, final(tr).ev, true), // @C10.every_query_sent_is_recorded_on_the_queried_record @C12.a_query_we_send_is_never_recorded_as_a_query_received
            final(self).recv_values == old(self).recv_values, // @C02.the_end_game_sweep_is_never_switched_off
            // C04: entering the end-game schedules the 1.5 s end-game timeout of this search that will finish it
            final(self).in_endgame && wake_ok(*final(self), *final(timer), None), // @C04.end_game_has_a_pending_timeout
            new_timeouts_1500ms(*old(timer), *final(timer)), // @C04.end_game_lasts_1500_ms
            others_kept(*old(self), *old(timer), *final(timer)), // @C04.a_search_removes_only_its_own_timer_entries
            no_new_refresh(*old(timer), *final(timer)),
            final(self).announce_tokens == old(self).announce_tokens, final(self).will_announce == old(self).will_announce, // @C03.endgame_round_keeps_tokens
            final(self).target_id == old(self).target_id, final(self).this_node_id == old(self).this_node_id,
            final(self).id_generator.action_id == old(self).id_generator.action_id,
            forall|i: int| old(tr).ev.len() <= i < final(tr).ev.len() && #[trigger] final(tr).ev[i] is Send ==> lookup_query(*old(self), final(tr).ev[i]), // @C19.lookup_queries_carry_8_byte_ids_of_the_search
            forall|i: int| old(tr).ev.len() <= i < final(tr).ev.len() && #[trigger] final(tr).ev[i] is Send ==> blen(final(tr).ev[i]->Send_0) <= 1500, // @C17.lookup_queries_fit_1500_bytes
    {
        broadcast use vstd::std_specs::hash::group_hash_axioms, tid_key_model;
        proof { lemma_consts(); }
        let ghost ev0 = tr.ev;
        proof { lemma_marks_refl(ev0, true); }
        // Entering the endgame phase
        self.in_endgame = true;

        // Try to start a global message timeout for the endgame
        let timeout = timer.schedule_in(
            ENDGAME_TIMEOUT,
            ScheduledTaskCheck::LookupEndGame(self.id_generator.generate()),
        );

        let ghost tm1 = *timer;
        assert(timer.pending@.contains_key(timeout) && entry_of(*self, timer.pending@[timeout]));
        // Request all unpinged nodes if we didnt receive any values
        if !self.recv_values {
            let mut vx_it = self.all_sorted_nodes.iter_mut().filter(|p: &&mut (Distance, NodeHandle, bool)| -> (b: bool) { { let (_, _, req) = p; !req } });
            loop
                invariant only_requests_and_yields(ev0, tr.ev), no_yield(ev0, tr.ev), // @C03.endgame_round_only_queries
                    outstanding_ids_ok(*old(self)) ==> outstanding_ids_ok(*self), // @C03.outstanding_ids_belong_to_this_search
                    marks_ok(ev0, tr.ev, true), // @C10.every_query_sent_is_recorded_on_the_queried_record @C12.a_query_we_send_is_never_recorded_as_a_query_received
                self.recv_values == old(self).recv_values, // @C02.the_end_game_sweep_is_never_switched_off
                    self.in_endgame, *timer == tm1,
                    no_new_refresh(*old(timer), *timer),
                    self.announce_tokens == old(self).announce_tokens, self.will_announce == old(self).will_announce, // @C03.endgame_round_keeps_tokens
                    self.target_id == old(self).target_id, self.this_node_id == old(self).this_node_id,
                    self.id_generator.action_id == old(self).id_generator.action_id,
                    forall|i: int| ev0.len() <= i < tr.ev.len() && #[trigger] tr.ev[i] is Send ==> lookup_query(*old(self), tr.ev[i]), // @C19.lookup_queries_carry_8_byte_ids_of_the_search
                    forall|i: int| ev0.len() <= i < tr.ev.len() && #[trigger] tr.ev[i] is Send ==> blen(tr.ev[i]->Send_0) <= 1500, // @C17.lookup_queries_fit_1500_bytes
            {
                broadcast use vstd::std_specs::hash::group_hash_axioms, tid_key_model;
                let vx_nx = vx_it.next();
                if vx_nx.is_none() {
                    break;
                }
                let node_info = vx_nx.unwrap();
                let (node_dist, node, req) = node_info;

                // Generate a transaction id for this message
                let trans_id = self.id_generator.generate();

                // Associate the transaction id with this node's distance and its timeout token
                // We dont actually need to keep track of this information, but we do still need to
                // filter out unsolicited responses by using the active_lookups map!!!
                self.active_lookups.insert(trans_id, (*node_dist, timeout));

                // Send the message to the node
                let get_peers_msg = Message {
                    transaction_id: trans_id.as_ref().to_vec(),
                    body: MessageBody::Request(Request::GetPeers(GetPeersRequest {
                        id: self.this_node_id,
                        info_hash: self.target_id,
                        want: None,
                    })),
                };
                proof {
                    assert forall|t: TransactionID| #[trigger] t.bytes@ == get_peers_msg.transaction_id@ implies t == trans_id by { assert(t.bytes =~= trans_id.bytes); }
                }

                let ghost evs = tr.ev;
                if let Err(error) = socket.send(&get_peers_msg, node.addr, Tracked(tr)) {
                    proof { lemma_marks_other(ev0, evs, Ev::Send(get_peers_msg, node.addr), true); }
                    continue;
                }
                proof { lemma_marks_other(ev0, evs, Ev::Send(get_peers_msg, node.addr), true); }

                // Mark that we requested from the node in the RoutingTable
                let ghost evf = tr.ev;
                if let Some(n) = self.table.lock().unwrap().find_node_mut(node, Tracked(tr)) {
                    n.local_request(Tracked(tr))
                }
                proof {
                    let k = evf.len() as int;
                    if tr.ev.len() == k + 2 && extends(evf, tr.ev) && tr.ev[k] == Ev::TableFind(*node, true) && tr.ev[k + 1] == Ev::Mark(*node, true) {
                        lemma_marks_hit(ev0, evf, *node, true);
                        assert(tr.ev =~= evf.push(Ev::TableFind(*node, true)).push(Ev::Mark(*node, true)));
                    } else if tr.ev.len() == k + 1 && extends(evf, tr.ev) && tr.ev[k] == Ev::TableFind(*node, false) {
                        lemma_marks_miss(ev0, evf, *node, true);
                        assert(tr.ev =~= evf.push(Ev::TableFind(*node, false)));
                    }
                }

                // Mark that we requested from the node
                *req = true;
            }
        }

        ActionStatus::Ongoing
    }
//@end

//@begin fn src/action/lookup.rs impl:TableLookup recv_response rules=R-deasync props=C03,C05,C19,C04,C01,C02
    pub fn recv_response(
        &mut self,
        node: Node,
        trans_id: &TransactionID,
        msg: Response,
        socket: &Socket,
        timer: &mut Timer<ScheduledTaskCheck>,
        Tracked(tr): Tracked<&mut Trace>,
    ) -> (res: ActionStatus)
        requires old(timer).wf(),
        ensures
            // C03: a response whose transaction id is not that of a still-outstanding query of this search changes nothing
            !old(self).active_lookups@.contains_key(*trans_id) ==> final(tr).ev == old(tr).ev && final(self).announce_tokens@ == old(self).announce_tokens@
                && final(self).active_lookups@ == old(self).active_lookups@ && *final(timer) == *old(timer), // @C03.unsolicited_response_changes_nothing
            // C03: otherwise the stream receives exactly the values of this response, in order, and nothing else
            old(self).active_lookups@.contains_key(*trans_id) ==> yields(final(tr).ev) == yields(old(tr).ev) + msg.values@, // @C03.yields_exactly_the_values_of_an_outstanding_query @C01.yields_exactly_the_values_of_an_outstanding_query @C02.yields_exactly_the_values_of_an_outstanding_query
            // C03: the token is recorded under the responder's (id, address), replacing any older one
            old(self).active_lookups@.contains_key(*trans_id) ==> final(self).announce_tokens@ == (if msg.token is Some { old(self).announce_tokens@.insert(node.handle, msg.token->0) } else { old(self).announce_tokens@ }), // @C03.latest_token_recorded_under_responder @C01.latest_token_recorded_under_responder @C02.latest_token_recorded_under_responder
            no_replies(old(tr).ev, final(tr).ev), only_requests_and_yields(old(tr).ev, final(tr).ev), // @C05.responses_never_answered
            outstanding_ids_ok(*old(self)) ==> outstanding_ids_ok(*final(self)), // @C03.outstanding_ids_belong_to_this_search
            marks_ok(old(tr).ev, final(tr).ev, true), // @C10.every_query_sent_is_recorded_on_the_queried_record @C12.a_query_we_send_is_never_recorded_as_a_query_received
            final(self).recv_values == old(self).recv_values, // @C02.the_end_game_sweep_is_never_switched_off
            // C04: the search reports Completed only when no query is outstanding and no end-game is running; as long as it goes on it cannot get stuck
            res == status_of(*final(self)), // @C04.completed_only_without_outstanding_query_and_outside_the_end_game
            old(self).active_lookups@.contains_key(*trans_id) && !old(self).in_endgame ==> res == ActionStatus::Ongoing, // @C04.a_search_ends_only_through_its_end_game
            wake_ok(*old(self), *old(timer), None) && outstanding_ids_ok(*old(self)) ==> wake_ok(*final(self), *final(timer), None), // @C04.every_outstanding_query_has_a_pending_timeout
            wake_ok(*old(self), *old(timer), None) && outstanding_ids_ok(*old(self)) ==> others_kept(*old(self), *old(timer), *final(timer)), // @C04.a_search_removes_only_its_own_timer_entries
            new_timeouts_1500ms(*old(timer), *final(timer)), // @C04.query_timeout_is_1500_ms
            // C04: an answer retires its own query only: every other outstanding query stays outstanding unless a round that could send nothing gave up
            old(self).active_lookups@.contains_key(*trans_id) ==> final(self).active_lookups@.len() == 0 || final(self).in_endgame || (forall|t: TransactionID| #[trigger] old(self).active_lookups@.contains_key(t) && t != *trans_id ==> final(self).active_lookups@.contains_key(t)), // @C04.an_answer_retires_only_its_own_query
            no_new_refresh(*old(timer), *final(timer)),
            final(self).will_announce == old(self).will_announce, final(self).target_id == old(self).target_id, final(self).this_node_id == old(self).this_node_id,
            final(self).id_generator.action_id == old(self).id_generator.action_id,
            // every datagram sent while handling a response is a get_peers query of this search
            forall|i: int| old(tr).ev.len() <= i < final(tr).ev.len() && #[trigger] final(tr).ev[i] is Send ==> lookup_query(*old(self), final(tr).ev[i]), // @C19.lookup_queries_carry_8_byte_ids_of_the_search
            forall|i: int| old(tr).ev.len() <= i < final(tr).ev.len() && #[trigger] final(tr).ev[i] is Send ==> blen(final(tr).ev[i]->Send_0) <= 1500, // @C17.lookup_queries_fit_1500_bytes
    {
        broadcast use vstd::std_specs::hash::group_hash_axioms, nodehandle_key_model, tid_key_model;
        let ghost ev0 = tr.ev;
        proof { lemma_marks_refl(ev0, true); }
        // Process the message transaction id
        let (dist_to_beat, timeout) = if let Some(lookup) = self.active_lookups.remove(trans_id) {
            lookup
        } else {
            return self.current_lookup_status();
        };

        assert(!self.active_lookups@.contains_key(*trans_id)); // @C03.answered_transaction_id_is_consumed
        // Cancel the timeout (if this is not an endgame response)
        if !self.in_endgame {
            timer.cancel(timeout);
        }
        let ghost tm_c = *timer;
        proof {
            if wake_ok(*old(self), *old(timer), None) && outstanding_ids_ok(*old(self)) {
                assert(old(self).active_lookups@.contains_key(*trans_id));
                if !self.in_endgame {
                    assert(old(timer).pending@[timeout] == ScheduledTaskCheck::LookupTimeout(*trans_id));
                    assert(entry_of(*old(self), old(timer).pending@[timeout]));
                }
                assert(others_kept(*old(self), *old(timer), tm_c));
            }
        }

        if let Some(token) = msg.token {
            // Add the announce token to our list of tokens
            self.announce_tokens.insert(*node.handle(), token);
        }

        let nodes = match socket.ip_version() {
            IpVersion::V4 => msg.nodes_v4,
            IpVersion::V6 => msg.nodes_v6,
        };

        let values = msg.values;

        // Check if we beat the distance, get the next distance to beat
        let ghost tok_m = self.announce_tokens;
        let ghost act_m = self.active_lookups;
        let (iterate_nodes, next_dist_to_beat) = if !nodes.is_empty() {
            let requested_nodes = &self.requested_nodes;

            // Get the closest distance (or the current distance)
            let next_dist_to_beat = vx_fold(nodes
                .iter()
                .filter(|node: &&NodeHandle| -> (b: bool) { !requested_nodes.contains(node) })
                , dist_to_beat, |closest: InfoHash, node: &NodeHandle| -> (r: InfoHash) { {
                    let distance = self.target_id ^ node.id;

                    if distance < closest {
                        distance
                    } else {
                        closest
                    }
                } });

            // Check if we got closer (equal to is not enough)
            let iterate_nodes = if next_dist_to_beat < dist_to_beat {
                let iterate_nodes = pick_iterate_nodes(
                    nodes
                        .iter()
                        .filter(|node: &&NodeHandle| -> (b: bool) { !requested_nodes.contains(node) })
                        .map(|vx_x: &NodeHandle| -> (r: NodeHandle) { *vx_x }),
                    self.target_id,
                );

                // Push nodes into the all nodes list
                let mut vx_i: usize = 0;
                while vx_i < nodes.len()
                    invariant vx_i <= nodes.len(),
                        tr.ev == ev0 && self.announce_tokens == tok_m, // @C03.node_selection_touches_only_the_candidate_list
                        self.active_lookups == act_m && *timer == tm_c, // @C04.node_selection_keeps_outstanding_queries_and_timeouts
                    decreases nodes.len() - vx_i,
                {
                    let node = nodes[vx_i];
                    vx_i += 1;
                    let will_ping = iterate_nodes.iter().any(|p: &(NodeHandle, bool)| -> (b: bool) { { let (n, _) = p; n == &node } });

                    insert_sorted_node(&mut self.all_sorted_nodes, self.target_id, node, will_ping);
                }

                Some(iterate_nodes)
            } else {
                // Push nodes into the all nodes list
                let mut vx_i: usize = 0;
                while vx_i < nodes.len()
                    invariant vx_i <= nodes.len(),
                        tr.ev == ev0 && self.announce_tokens == tok_m, // @C03.node_selection_touches_only_the_candidate_list
                        self.active_lookups == act_m && *timer == tm_c, // @C04.node_selection_keeps_outstanding_queries_and_timeouts
                    decreases nodes.len() - vx_i,
                {
                    let node = nodes[vx_i];
                    vx_i += 1;
                    insert_sorted_node(&mut self.all_sorted_nodes, self.target_id, node, false);
                }

                None
            };

            (iterate_nodes, next_dist_to_beat)
        } else {
            (None, dist_to_beat)
        };

        // Check if we need to iterate (not in the endgame already)
        if !self.in_endgame {
            // If the node gave us a closer id than its own to the target id, continue the search
            if let Some(nodes) = iterate_nodes {
                let filtered_nodes = nodes
                    .iter()
                    .filter(|p: &&(NodeHandle, bool)| -> (b: bool) { { let (_, good) = p; *good } })
                    .map(|p: &(NodeHandle, bool)| -> (q: (&NodeHandle, DistanceToBeat)) { { let (n, _) = p; (n, next_dist_to_beat) } });
                let ghost evr = tr.ev;
                self.start_request_round(filtered_nodes, socket, timer, Tracked(tr))
                    ;
                proof { lemma_marks_trans(ev0, evr, tr.ev, true); }
            }

            // If there are not more active lookups, start the endgame
            if self.active_lookups.is_empty() {
                let ghost eve = tr.ev;
                self.start_endgame_round(socket, timer, Tracked(tr));
                proof { lemma_marks_trans(ev0, eve, tr.ev, true); }
            }
        }

        proof {
            if wake_ok(*old(self), *old(timer), None) && outstanding_ids_ok(*old(self)) {
                assert(others_kept(*old(self), *old(timer), *timer));
            }
        }
        let ghost ev1 = tr.ev;
        let ghost vals = values@;
        let ghost ann1 = self.announce_tokens;
        let ghost tm1 = *timer;
        proof {
            lemma_yields_quiet(ev0, ev1); // @C03.yields_exactly_the_values_of_an_outstanding_query @C01.yields_exactly_the_values_of_an_outstanding_query @C02.yields_exactly_the_values_of_an_outstanding_query
        }
        for value in it: values
            invariant it.snapshot@.remaining() == vals, 0 <= it.index@ <= vals.len(),
                yields(tr.ev) == yields(ev0) + vals.take(it.index@ as int), // @C03.yields_exactly_the_values_of_an_outstanding_query @C01.yields_exactly_the_values_of_an_outstanding_query @C02.yields_exactly_the_values_of_an_outstanding_query
                no_replies(ev0, tr.ev), only_requests_and_yields(ev0, tr.ev), // @C05.responses_never_answered
                self.announce_tokens == ann1, // @C03.latest_token_recorded_under_responder @C01.latest_token_recorded_under_responder @C02.latest_token_recorded_under_responder
                 self.will_announce == old(self).will_announce, self.target_id == old(self).target_id, self.this_node_id == old(self).this_node_id,
                *timer == tm1, self.id_generator.action_id == old(self).id_generator.action_id, extends(ev1, tr.ev),
                marks_ok(ev0, tr.ev, true), // @C10.every_query_sent_is_recorded_on_the_queried_record @C12.a_query_we_send_is_never_recorded_as_a_query_received
                forall|i: int| ev1.len() <= i < tr.ev.len() ==> !(#[trigger] tr.ev[i] is Send),
        {
            let ghost k = it.index@;
            let ghost evb = tr.ev;
            let vx_ret = self.tx.send(value, Tracked(tr)).unwrap_or(());
            proof {
                lemma_yields_push(evb, Ev::Yield(value));
                lemma_marks_other(ev0, evb, Ev::Yield(value), true);
                assert(vals.take(k + 1) =~= vals.take(k as int).push(vals[k as int]));
                assert(yields(ev0) + vals.take(k + 1) =~= (yields(ev0) + vals.take(k as int)).push(value));
            }
            vx_ret
        }
        proof { assert(vals.take(vals.len() as int) =~= vals); }

        self.current_lookup_status()
    }
//@end

//@begin fn src/action/lookup.rs impl:TableLookup recv_timeout rules=R-deasync props=C03,C05,C19,C04,C02
    pub fn recv_timeout(
        &mut self,
        trans_id: &TransactionID,
        socket: &Socket,
        timer: &mut Timer<ScheduledTaskCheck>,
        Tracked(tr): Tracked<&mut Trace>,
    ) -> (res: ActionStatus)
        requires old(timer).wf(),
        ensures
            !old(self).active_lookups@.contains_key(*trans_id) ==> final(tr).ev == old(tr).ev && *final(timer) == *old(timer) && final(self).active_lookups@ == old(self).active_lookups@, // @C03.unknown_timeout_changes_nothing
            only_requests_and_yields(old(tr).ev, final(tr).ev), no_yield(old(tr).ev, final(tr).ev), // @C03.timeouts_yield_nothing
            outstanding_ids_ok(*old(self)) ==> outstanding_ids_ok(*final(self)), // @C03.outstanding_ids_belong_to_this_search
            marks_ok(old(tr).ev, final(tr).ev, true), // @C10.every_query_sent_is_recorded_on_the_queried_record @C12.a_query_we_send_is_never_recorded_as_a_query_received
            final(self).recv_values == old(self).recv_values, // @C02.the_end_game_sweep_is_never_switched_off
            // C04: `trans_id` is the query whose timeout has just fired (the fired entry is gone from the timer)
            res == status_of(*final(self)), // @C04.completed_only_without_outstanding_query_and_outside_the_end_game
            old(self).active_lookups@.contains_key(*trans_id) && !old(self).in_endgame ==> res == ActionStatus::Ongoing, // @C04.a_search_ends_only_through_its_end_game
            wake_ok(*old(self), *old(timer), Some(*trans_id)) ==> wake_ok(*final(self), *final(timer), None), // @C04.every_outstanding_query_has_a_pending_timeout
            others_kept(*old(self), *old(timer), *final(timer)), // @C04.a_search_removes_only_its_own_timer_entries
            new_timeouts_1500ms(*old(timer), *final(timer)), // @C04.end_game_lasts_1500_ms
            final(self).in_endgame || (forall|t: TransactionID| #[trigger] old(self).active_lookups@.contains_key(t) && t != *trans_id ==> final(self).active_lookups@.contains_key(t)), // @C04.a_timeout_retires_only_its_own_query
            no_new_refresh(*old(timer), *final(timer)),
            final(self).announce_tokens == old(self).announce_tokens, final(self).will_announce == old(self).will_announce,
            forall|i: int| old(tr).ev.len() <= i < final(tr).ev.len() && #[trigger] final(tr).ev[i] is Send ==> lookup_query(*old(self), final(tr).ev[i]), // @C19.lookup_queries_carry_8_byte_ids_of_the_search
            forall|i: int| old(tr).ev.len() <= i < final(tr).ev.len() && #[trigger] final(tr).ev[i] is Send ==> blen(final(tr).ev[i]->Send_0) <= 1500, // @C17.lookup_queries_fit_1500_bytes
    {
        broadcast use vstd::std_specs::hash::group_hash_axioms, tid_key_model;
        proof { lemma_marks_refl(tr.ev, true); }
        if self.active_lookups.remove(trans_id).is_none() {
            return self.current_lookup_status();
        }

        if !self.in_endgame {
            // If there are not more active lookups, start the endgame
            if self.active_lookups.is_empty() {
                self.start_endgame_round(socket, timer, Tracked(tr));
            }
        }

        self.current_lookup_status()
    }
//@end

//@begin fn src/action/lookup.rs impl:TableLookup completed props=C03,C04,C02
    pub fn completed(&self) -> (r: bool)
        ensures r == (self.active_lookups@.len() == 0),
    {
        broadcast use vstd::std_specs::hash::group_hash_axioms, tid_key_model;
        self.active_lookups.is_empty()
    }
//@end

//@begin fn src/action/lookup.rs impl:TableLookup recv_finished rules=R-deasync props=C03,C19,C04,C01,C02
    pub fn recv_finished(&mut self, port: Option<u16>, socket: &Socket, Tracked(tr): Tracked<&mut Trace>)
        ensures
            !old(self).will_announce ==> final(tr).ev == old(tr).ev, // @C03.never_announces_when_not_requested @C02.never_announces_when_not_requested
            announces_le_8(old(tr).ev, final(tr).ev), // @C03.at_most_8_announces_per_search @C02.at_most_8_announces_per_search
            // every datagram sent is an announce_peer to a node that answered this search with a token, carrying that node's
            // (latest recorded) token, the searched info-hash, our id, the configured port and an 8-byte transaction id of this search
            forall|i: int| old(tr).ev.len() <= i < final(tr).ev.len() && #[trigger] final(tr).ev[i] is Send ==> announce_ok(*old(self), port, final(tr).ev[i]), // @C03.announce_only_to_token_holders_with_their_token @C01.announce_only_to_token_holders_with_their_token @C02.announce_only_to_token_holders_with_their_token
            only_requests_and_yields(old(tr).ev, final(tr).ev), no_yield(old(tr).ev, final(tr).ev), // @C03.finishing_yields_nothing
            marks_ok(old(tr).ev, final(tr).ev, true), // @C10.every_query_sent_is_recorded_on_the_queried_record @C12.a_query_we_send_is_never_recorded_as_a_query_received
            (forall|h: NodeHandle| #[trigger] old(self).announce_tokens@.contains_key(h) ==> old(self).announce_tokens@[h]@.len() <= 1300) ==> forall|i: int| old(tr).ev.len() <= i < final(tr).ev.len() && #[trigger] final(tr).ev[i] is Send ==> blen(final(tr).ev[i]->Send_0) <= 1500, // @C17.announce_queries_fit_1500_bytes_when_the_remote_token_is_at_most_1300_bytes
            // the unconditional statement (recorded known finding: a token of 1366..1435 bytes arrives in a response that fits 1500 bytes, the announce echoing it does not)
            (forall|h: NodeHandle| #[trigger] old(self).announce_tokens@.contains_key(h) ==> 60 + bstr(old(self).announce_tokens@[h]@.len() as nat) <= 1500) ==> forall|i: int| old(tr).ev.len() <= i < final(tr).ev.len() && #[trigger] final(tr).ev[i] is Send ==> blen(final(tr).ev[i]->Send_0) <= 1500, // @C17.announce_queries_fit_1500_bytes
            final(self).active_lookups@.len() == 0 && !final(self).in_endgame,
    {
        broadcast use vstd::std_specs::hash::group_hash_axioms, nodehandle_key_model, tid_key_model;
        proof { lemma_consts(); }
        let ghost ev0 = tr.ev;
        proof { lemma_marks_refl(ev0, true); }
        // Announce if we were told to
        if self.will_announce {
            // Partial borrow so the filter function doesnt capture all of self
            let announce_tokens = &self.announce_tokens;

            for (_, node, _) in it: self
                .all_sorted_nodes
                .iter()
                .filter(|p: &&(Distance, NodeHandle, bool)| -> (b: bool) ensures b == announce_tokens@.contains_key(p.1) { { let (_, node, _) = p; announce_tokens.contains_key(node) } })
                .take(ANNOUNCE_PICK_NUM)
                invariant it.index@ <= 8, tr.ev.len() <= ev0.len() + 3 * it.index@, ev0.len() <= tr.ev.len(),
                    send_count(ev0, tr.ev) <= it.index@,
                    announce_tokens@ == old(self).announce_tokens@, self.this_node_id == old(self).this_node_id, self.target_id == old(self).target_id,
                    self.id_generator.action_id == old(self).id_generator.action_id,
                    forall|i: int| ev0.len() <= i < tr.ev.len() && #[trigger] tr.ev[i] is Send ==> announce_ok(*old(self), port, tr.ev[i]),
                    only_requests_and_yields(ev0, tr.ev), no_yield(ev0, tr.ev),
                    marks_ok(ev0, tr.ev, true), // @C10.every_query_sent_is_recorded_on_the_queried_record @C12.a_query_we_send_is_never_recorded_as_a_query_received
                    (forall|h: NodeHandle| #[trigger] old(self).announce_tokens@.contains_key(h) ==> old(self).announce_tokens@[h]@.len() <= 1300) ==> forall|i: int| ev0.len() <= i < tr.ev.len() && #[trigger] tr.ev[i] is Send ==> blen(tr.ev[i]->Send_0) <= 1500, // @C17.announce_queries_fit_1500_bytes_when_the_remote_token_is_at_most_1300_bytes
                    (forall|h: NodeHandle| #[trigger] old(self).announce_tokens@.contains_key(h) ==> 60 + bstr(old(self).announce_tokens@[h]@.len() as nat) <= 1500) ==> forall|i: int| ev0.len() <= i < tr.ev.len() && #[trigger] tr.ev[i] is Send ==> blen(tr.ev[i]->Send_0) <= 1500, // @C17.announce_queries_fit_1500_bytes
            {
                broadcast use vstd::std_specs::hash::group_hash_axioms, nodehandle_key_model;
                let ghost evb = tr.ev;
                let trans_id = self.id_generator.generate();
                let token = announce_tokens.get(node).unwrap();

                let announce_peer_req = AnnouncePeerRequest {
                    id: self.this_node_id,
                    info_hash: self.target_id,
                    token: token.clone(),
                    port,
                };
                let announce_peer_msg = Message {
                    transaction_id: trans_id.as_ref().to_vec(),
                    body: MessageBody::Request(Request::AnnouncePeer(announce_peer_req)),
                };

                match socket.send(&announce_peer_msg, node.addr, Tracked(tr)) {
                    Ok(()) => {
                        proof { lemma_marks_other(ev0, evb, Ev::Send(announce_peer_msg, node.addr), true); }
                        let ghost evf = tr.ev;
                        // We requested from the node, marke it down if the node is in our routing table
                        if let Some(n) = self.table.lock().unwrap().find_node_mut(node, Tracked(tr)) {
                            n.local_request(Tracked(tr))
                        }
                        proof {
                            let k = evf.len() as int;
                            if tr.ev.len() == k + 2 && extends(evf, tr.ev) && tr.ev[k] == Ev::TableFind(*node, true) && tr.ev[k + 1] == Ev::Mark(*node, true) {
                                lemma_marks_hit(ev0, evf, *node, true);
                                assert(tr.ev =~= evf.push(Ev::TableFind(*node, true)).push(Ev::Mark(*node, true)));
                            } else if tr.ev.len() == k + 1 && extends(evf, tr.ev) && tr.ev[k] == Ev::TableFind(*node, false) {
                                lemma_marks_miss(ev0, evf, *node, true);
                                assert(tr.ev =~= evf.push(Ev::TableFind(*node, false)));
                            }
                        }
                    }
                    Err(error) => {
                        proof { lemma_marks_other(ev0, evb, Ev::Send(announce_peer_msg, node.addr), true); }
                        ()
                    }
                }
                proof {
                    assert forall|t: TransactionID| #[trigger] t.bytes@ == announce_peer_msg.transaction_id@ implies t == trans_id by { assert(t.bytes =~= trans_id.bytes); }
                    lemma_send_count_step(ev0, evb, tr.ev);
                }
            }
        }

        // This may not be cleared since we didnt set a timeout for each node, any nodes that didnt respond would still be in here.
        self.active_lookups.clear();
        self.in_endgame = false;
    }
//@end

//@begin fn src/action/lookup.rs impl:TableLookup current_lookup_status nopub=1 props=C04,C03,C02
    fn current_lookup_status(&self) -> (r: ActionStatus)
        ensures r == (if self.in_endgame || self.active_lookups@.len() != 0 { ActionStatus::Ongoing } else { ActionStatus::Completed }),
    {
        broadcast use vstd::std_specs::hash::group_hash_axioms, tid_key_model;
        if self.in_endgame || !self.active_lookups.is_empty() {
            ActionStatus::Ongoing
        } else {
            ActionStatus::Completed
        }
    }
//@end
}
