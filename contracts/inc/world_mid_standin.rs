// ---- message id generator: stand-in carrying the contract proved in unit `txid` (every id has the generator's 5-byte action prefix)
pub struct MIDGenerator { pub action_id: u64 }
impl MIDGenerator {
    #[verifier::external_body]
    pub fn action_id(&self) -> (r: ActionID) ensures r.action_id == self.action_id >> 24 { unimplemented!() }
    #[verifier::external_body]
    pub fn generate(&mut self) -> (r: TransactionID) ensures final(self).action_id == old(self).action_id, tid_value(r) >> 24 == old(self).action_id >> 24 { unimplemented!() }
}
