// ================= C17: length of the canonical bencoding of a KRPC message, written from BEP3 / BEP5 / BEP32 =================
// ASSUMED: |bencode::encode(m)| == blen(m) (the encoder is a dependency, see C13)
pub open spec fn dec_len(n: nat) -> nat { if n < 10 { 1 } else if n < 100 { 2 } else if n < 1000 { 3 } else if n < 10000 { 4 } else if n < 100000 { 5 } else { 20 } }
/// byte string "<len>:<bytes>"
pub open spec fn bstr(n: nat) -> nat { dec_len(n) + 1 + n }
/// integer "i<v>e"
pub open spec fn bint(v: nat) -> nat { 2 + dec_len(v) }
/// "4:want" + list of "n4"/"n6"
pub open spec fn want_len(w: Option<Want>) -> nat { match w { None => 0, Some(Want::Both) => 16, Some(_) => 12 } }
pub open spec fn values_len(v: Seq<SocketAddr>) -> nat
    decreases v.len()
{
    if v.len() == 0 { 0 } else { values_len(v.drop_last()) + (if sa_is_v4(v.last()) { 8nat } else { 21nat }) }
}
pub open spec fn args_len(r: Request) -> nat {
    match r {
        Request::Ping(_) => 29,
        Request::FindNode(f) => 60 + want_len(f.want),
        Request::GetPeers(g) => 63 + want_len(g.want),
        Request::AnnouncePeer(a) => 2 + 27 + 34 + (match a.port { None => 18 + 6 + 3, Some(p) => 6 + bint(p as nat) }) + 7 + bstr(a.token@.len()),
    }
}
pub open spec fn name_len(r: Request) -> nat { match r { Request::Ping(_) => 4, Request::FindNode(_) => 9, Request::GetPeers(_) => 9, Request::AnnouncePeer(_) => 13 } }
pub open spec fn rdict_len(r: Response) -> nat {
    2 + 27
    + (if r.nodes_v4@.len() > 0 { 7 + bstr(26 * r.nodes_v4@.len()) } else { 0 })
    + (if r.nodes_v6@.len() > 0 { 8 + bstr(38 * r.nodes_v6@.len()) } else { 0 })
    + (match r.token { Some(t) => 7 + bstr(t@.len()), None => 0 })
    + (if r.values@.len() > 0 { 8 + 2 + values_len(r.values@) } else { 0 })
}
pub open spec fn blen(m: Message) -> nat {
    match m.body {
        MessageBody::Request(r) => 14 + args_len(r) + 3 + bstr(name_len(r)) + bstr(m.transaction_id@.len()),
        MessageBody::Response(r) => 14 + rdict_len(r) + bstr(m.transaction_id@.len()),
        MessageBody::Error(e) => 16 + bint(e.code as nat) + bstr(e.message@.len()) + bstr(m.transaction_id@.len()),
    }
}
pub proof fn lemma_values_len_bound(v: Seq<SocketAddr>)
    ensures values_len(v) <= 21 * v.len(), (forall|i: int| 0 <= i < v.len() ==> sa_is_v4(#[trigger] v[i])) ==> values_len(v) == 8 * v.len()
    decreases v.len()
{
    if v.len() > 0 {
        lemma_values_len_bound(v.drop_last());
        assert forall|i: int| 0 <= i < v.drop_last().len() implies v.drop_last()[i] == v[i] by {}
    }
}
