// ================= action/bootstrap.rs: the bootstrap task =================
//@begin const src/action/bootstrap.rs - INITIAL_TIMEOUT
pub exec const INITIAL_TIMEOUT: Duration ensures dur_nanos(INITIAL_TIMEOUT) == 2_500_000_000 { Duration::from_millis(2500) }
//@end
//@begin const src/action/bootstrap.rs - NODE_TIMEOUT
pub exec const NODE_TIMEOUT: Duration ensures dur_nanos(NODE_TIMEOUT) == 500_000_000 { Duration::from_millis(500) }
//@end
//@begin const src/action/bootstrap.rs - NO_NETWORK_TIMEOUT
pub exec const NO_NETWORK_TIMEOUT: Duration ensures dur_nanos(NO_NETWORK_TIMEOUT) == 5_000_000_000 { Duration::from_secs(5) }
//@end
//@begin const src/action/bootstrap.rs - PERIODIC_CHECK_TIMEOUT
pub exec const PERIODIC_CHECK_TIMEOUT: Duration ensures dur_nanos(PERIODIC_CHECK_TIMEOUT) == 5_000_000_000 { Duration::from_secs(5) }
//@end
//@begin const src/action/bootstrap.rs - GOOD_NODE_THRESHOLD
pub const GOOD_NODE_THRESHOLD: usize = 10;
//@end
//@begin const src/action/bootstrap.rs - PINGS_PER_BUCKET
pub const PINGS_PER_BUCKET: usize = 8;
//@end
//@begin const src/action/bootstrap.rs - MAX_INITIAL_RESPONSES
pub const MAX_INITIAL_RESPONSES: usize = 8;
//@end
pub mod table {
    use super::*;
//@begin const src/table.rs - MAX_BUCKETS
    pub const MAX_BUCKETS: usize = INFO_HASH_LEN * 8;
//@end
}
//@begin type src/action/bootstrap.rs - enum State
#[derive(Structural, Eq, PartialEq, Copy, Clone)]
pub enum State {
    AwaitStart,
    InitialContact,
    Bootstrapping,
    Bootstrapped,
    IdleBeforeRebootstrap,
}
//@end
//@begin type src/action/bootstrap.rs - struct TableBootstrapInner
pub struct TableBootstrapInner {
    pub this_node_id: NodeId,
    pub ip_version: IpVersion,
    pub routers: HashSet<String>,
    pub id_generator: Mutex<MIDGenerator>,
    pub starting_nodes: HashSet<SocketAddr>,
    pub table: Arc<Mutex<RoutingTable>>,
    pub socket: Arc<Socket>,
    pub start_rx: watch::Receiver<bool>,
    pub state_tx: watch::Sender<State>,
}
//@end

/// extending the trace keeps what has been sent / answered
pub proof fn lemma_answered_mono(o: Seq<Ev>, f: Seq<Ev>)
    requires extends(o, f), answered(o)
    ensures answered(f)
{
    let i = choose|i: int| 0 <= i < o.len() && #[trigger] o[i] is TableAdd;
    assert(f[i] == o[i]);
}
/// two ids with the same bytes are the same id
pub proof fn lemma_tid_ext(a: TransactionID, b: TransactionID)
    requires a.bytes@ == b.bytes@
    ensures a == b
{
    assert(a.bytes =~= b.bytes);
}
/// C19: the id just issued has not been used by any datagram sent before (as long as fewer than 2^24 ids have been issued)
//@props C19
pub proof fn lemma_fresh(ev: Seq<Ev>, g: MIDGenerator, hist: Seq<u64>, t: TransactionID)
    requires g.inv(), g.rep(hist), hist.len() >= 1, hist.len() <= M(), hist_small(hist), // @C19.generator_state_and_history_agree
        tid_value(t) == g.action_id | hist.last(), // @C19.id_is_the_one_just_issued
        ids_from_hist(ev, g.action_id, hist.drop_last()), // @C19.earlier_datagrams_carry_earlier_ids
    ensures !sent_id(ev, t.bytes@)
{
    if sent_id(ev, t.bytes@) {
        let i = choose|i: int| 0 <= i < ev.len() && #[trigger] ev[i] is Send && ev[i]->Send_0.transaction_id@ == t.bytes@;
        let h0 = hist.drop_last();
        assert(hist_has(h0, g.action_id, ev[i]->Send_0.transaction_id@));
        let k = choose|k: int| 0 <= k < h0.len() && id_matches(g.action_id, #[trigger] h0[k], ev[i]->Send_0.transaction_id@);
        let u = choose|u: TransactionID| #[trigger] tid_value(u) == g.action_id | h0[k] && u.bytes@ == ev[i]->Send_0.transaction_id@;
        lemma_tid_ext(u, t);
        assert(h0[k] == hist[k]);
        lemma_tid_split(g.action_id, hist[k]);
        lemma_tid_split(g.action_id, hist.last());
        theorem_mids_distinct(g, hist, k, hist.len() - 1);
    }
}
/// every id in the history is a 24-bit message id
pub open spec fn hist_small(hist: Seq<u64>) -> bool { forall|k: int| 0 <= k < hist.len() ==> #[trigger] hist[k] < M() }
/// the generator behind the task's mutex, its issue history and the trace agree
pub open spec fn gen_ok(g: MIDGenerator, hist: Seq<u64>, ev: Seq<Ev>, action_id: u64) -> bool {
    g.inv() && g.rep(hist) && g.action_id == action_id && hist_small(hist) && ids_from_hist(ev, action_id, hist)
}
pub proof fn lemma_has_mono(h0: Seq<u64>, h1: Seq<u64>, action_id: u64, tid: Seq<u8>)
    requires hist_has(h0, action_id, tid), h0.len() <= h1.len(), forall|k: int| 0 <= k < h0.len() ==> h0[k] == h1[k]
    ensures hist_has(h1, action_id, tid)
{
    let k = choose|k: int| 0 <= k < h0.len() && id_matches(action_id, #[trigger] h0[k], tid);
    assert(h0[k] == h1[k]);
}
pub proof fn lemma_ids_mono(ev: Seq<Ev>, action_id: u64, h0: Seq<u64>, h1: Seq<u64>)
    requires ids_from_hist(ev, action_id, h0), h0.len() <= h1.len(), forall|k: int| 0 <= k < h0.len() ==> h0[k] == h1[k] // @C19.history_only_grows
    ensures ids_from_hist(ev, action_id, h1)
{
    assert forall|i: int| 0 <= i < ev.len() && #[trigger] ev[i] is Send implies hist_has(h1, action_id, ev[i]->Send_0.transaction_id@) by {
        lemma_has_mono(h0, h1, action_id, ev[i]->Send_0.transaction_id@);
    }
}
/// an event that is not a datagram keeps the relation
pub proof fn lemma_ids_other(ev: Seq<Ev>, e: Ev, action_id: u64, hist: Seq<u64>)
    requires ids_from_hist(ev, action_id, hist), !(e is Send) // @C19.only_requests_are_datagrams
    ensures ids_from_hist(ev.push(e), action_id, hist)
{
    let e2 = ev.push(e);
    assert forall|i: int| 0 <= i < e2.len() && #[trigger] e2[i] is Send implies hist_has(hist, action_id, e2[i]->Send_0.transaction_id@) by {
        assert(i < ev.len());
        assert(e2[i] == ev[i]);
    }
}
/// datagrams carrying the id issued last keep the relation
pub proof fn lemma_ids_round(ev0: Seq<Ev>, ev1: Seq<Ev>, action_id: u64, hist: Seq<u64>, tid: Seq<u8>, t: TransactionID)
    requires ids_from_hist(ev0, action_id, hist), extends(ev0, ev1), hist.len() >= 1, tid_value(t) == action_id | hist.last(), t.bytes@ == tid, // @C19.round_uses_the_id_just_issued
        forall|i: int| ev0.len() <= i < ev1.len() && #[trigger] ev1[i] is Send ==> ev1[i]->Send_0.transaction_id@ == tid, // @C19.round_uses_the_id_just_issued
    ensures ids_from_hist(ev1, action_id, hist)
{
    assert forall|i: int| 0 <= i < ev1.len() && #[trigger] ev1[i] is Send implies hist_has(hist, action_id, ev1[i]->Send_0.transaction_id@) by {
        if i < ev0.len() {
            assert(ev1[i] == ev0[i]);
        } else {
            let k = hist.len() - 1;
            assert(id_matches(action_id, hist[k], tid));
        }
    }
}

impl TableBootstrapInner {
    pub open spec fn no_contacts(&self) -> bool { self.routers@.len() == 0 && self.starting_nodes@.len() == 0 }

//@begin fn src/action/bootstrap.rs impl:TableBootstrapInner set_state props=C15
    pub fn set_state(&self, new_state: State, from_line: u32, Tracked(ps): Tracked<&mut Pub>)
        ensures final(ps).state == new_state, // @C15.published_state_is_the_requested_one
    {
        let old_state = *self.state_tx.borrow(Tracked(ps));

        if old_state == new_state {
            return;
        }

        self.state_tx.send(new_state, Tracked(ps)).unwrap_or(());
    }
//@end

//@begin fn src/action/bootstrap.rs impl:TableBootstrapInner run rules=R-deasync,R-select,R-mutself props=C15,C19
    #[verifier::exec_allows_no_decreases_clause]
    pub fn run(&mut self, table_id: NodeId, Tracked(tr): Tracked<&mut Trace>, Tracked(h): Tracked<&mut Hist>, Tracked(gc): Tracked<&mut Own<MIDGenerator>>, Tracked(ps): Tracked<&mut Pub>)
        requires old(tr).ev.len() == 0, old(h).s.len() == 0, old(gc).v.inv(), old(gc).v.rep(old(h).s), old(ps).state == State::AwaitStart,
    {
        broadcast use sockaddr_key_model;
        let ghost aid = gc.v.action_id;
        loop
            invariant tr.ev.len() == 0, h.s.len() == 0, gc.v.inv(), gc.v.rep(h.s), gc.v.action_id == aid, ps.state == State::AwaitStart,
        {
            match self.start_rx.changed() {
                Ok(()) => {
                    if *self.start_rx.borrow() {
                        break;
                    }
                }
                Err(_) => return,
            }
        }

        let mut bootstrap_attempt = 0;

        loop
            invariant gen_ok(gc.v, h.s, tr.ev, aid),
                self.no_contacts() ==> no_sends(tr.ev),
                // C15: `Bootstrapped` is published only when there is nobody to contact or after some contact has answered
                ps.state == State::Bootstrapped ==> self.no_contacts() || answered(tr.ev), // @C15.not_bootstrapped_before_a_contact_answered
        {
            broadcast use sockaddr_key_model, group_hash_axioms;
            // If we have no bootstrap contacts it means we are the first node in the network and
            // other would bootstrap against us. We consider this node as already bootstrapped.
            if self.routers.is_empty() && self.starting_nodes.is_empty() {
                self.set_state(State::Bootstrapped, line!(), Tracked(ps));
                proof {
                    assert(ps.state == State::Bootstrapped && no_sends(tr.ev)); // @C15.no_contacts_bootstrapped_at_once_and_silent
                }
                vx_pending();
                unreachable!();
            }

            let router_addresses = resolve(&self.routers, self.socket.ip_version());
            self.table.lock().unwrap().routers = router_addresses.clone();

            if router_addresses.is_empty() && self.starting_nodes.is_empty() {
                self.set_state(State::IdleBeforeRebootstrap, line!(), Tracked(ps));
                sleep(NO_NETWORK_TIMEOUT);
                continue;
            }

            self.set_state(State::InitialContact, line!(), Tracked(ps));

            // In the initial round, we send the requests to contacts (nodes and routers) who are not in
            // our routing table. Because of that, we don't care who we receive a response from, only
            // that we receive sufficient number of unique ones. Thus we use the same transaction id
            // for all of them.
            // After the initial round we are sending only to nodes from the routing table, so we use
            // unique transaction id per node.
            let ghost h0 = h.s;
            let trans_id = self.id_generator.lock(Tracked(gc)).unwrap().generate(Tracked(h));

            let find_node_msg = Self::make_find_node_request(trans_id, table_id, table_id);
            proof {
                assert(h.s.drop_last() == h0); // @C19.id_issued_for_this_round
                if h.s.len() <= M() { lemma_fresh(tr.ev, gc.v, h.s, trans_id); }
                lemma_ids_mono(tr.ev, aid, h0, h.s);
            }
            let ghost ev0 = tr.ev;

            let mut receivers = FuturesUnordered::new();
            let (new_receivers_tx, mut new_receivers_rx) = mpsc::unbounded_channel();

            proof {
                // ASSUMPTION A-mem: two address sets held in memory have fewer than 2^64 elements together
                assume(router_addresses@.len() + self.starting_nodes@.len() < usize::MAX);
            }
            let contact_count = router_addresses.len() + self.starting_nodes.len();
            let stop_at = std::cmp::min(contact_count, MAX_INITIAL_RESPONSES);
            let mut responses_received = 0;

            let mut send_finished = false;
            let mut new_receivers_closed = false;
            let mut send_to_initial_nodes = self.send_to_initial_nodes(
                find_node_msg,
                &router_addresses,
                new_receivers_tx,
                Tracked(tr), Tracked(h)
            );
            proof {
                lemma_ids_round(ev0, tr.ev, aid, h.s, find_node_msg.transaction_id@, trans_id);
            }

            loop
                invariant gen_ok(gc.v, h.s, tr.ev, aid), responses_received <= stop_at || responses_received <= 1, stop_at < usize::MAX,
                    responses_received > 0 ==> answered(tr.ev), // @C15.not_bootstrapped_before_a_contact_answered
            {
                if send_finished && new_receivers_closed && receivers.is_empty() {
                    break;
                }

                {
                    let vx_sel = vx_select();
                    if vx_sel == 0 && (!send_finished) {
                        let _ = &mut send_to_initial_nodes;
                        {
                            send_finished = true;
                        }
                    } else if vx_sel == 1 && (!new_receivers_closed) {
                        let new_receiver = new_receivers_rx.recv();
                        {
                            if let Some(new_receiver) = new_receiver {
                                receivers.push(new_receiver);
                            } else {
                                new_receivers_closed = true;
                            }
                        }
                    } else if vx_sel == 2 && (!receivers.is_empty()) {
                        let ret = receivers.next();
                        {
                            if let Some(Some((message, from))) = ret {
                                let ghost evb = tr.ev;
                                if self.handle_message(message, from, Tracked(tr)) {
                                    proof {
                                        assert(tr.ev[evb.len() as int] is TableAdd);
                                        lemma_ids_other(evb, tr.ev[evb.len() as int], aid, h.s);
                                    }
                                    responses_received += 1;

                                    if responses_received >= stop_at {
                                        break;
                                    }
                                }
                            }
                        }
                    } else {
                        vx_select_idle((!send_finished) || (!new_receivers_closed) || (!receivers.is_empty())); // @C15.select_always_has_an_enabled_arm
                    }
                }
            }

            if responses_received == 0 {
                self.set_state(State::IdleBeforeRebootstrap, line!(), Tracked(ps));
                proof {
                    // ASSUMPTION A-attempts: fewer than 2^64 failed attempts (each lasts at least 2 s)
                    assume(bootstrap_attempt < u64::MAX);
                }
                time::sleep(self.calculate_retry_duration(bootstrap_attempt));
                bootstrap_attempt += 1;
                continue;
            }

            self.set_state(State::Bootstrapping, line!(), Tracked(ps));

            for bucket_number in 0..table::MAX_BUCKETS
                invariant gen_ok(gc.v, h.s, tr.ev, aid), ps.state == State::Bootstrapping,
                    answered(tr.ev), // @C15.not_bootstrapped_before_a_contact_answered
            {
                let (new_receivers_tx, mut new_receivers_rx) = mpsc::unbounded_channel();

                let ghost evs = tr.ev;
                let mut send_bucket_bootstrap =
                    self.send_bucket_bootstrap_requests(bucket_number, new_receivers_tx, Tracked(tr), Tracked(h), Tracked(gc));
                proof {
                    lemma_answered_mono(evs, tr.ev);
                }

                let mut send_finished = false;
                let mut new_receivers_closed = false;
                let mut receivers = FuturesUnordered::new();

                loop
                    invariant gen_ok(gc.v, h.s, tr.ev, aid), ps.state == State::Bootstrapping,
                    answered(tr.ev), // @C15.not_bootstrapped_before_a_contact_answered
                {
                    if send_finished && new_receivers_closed && receivers.is_empty() {
                        break;
                    }

                    {
                        let vx_sel = vx_select();
                        if vx_sel == 0 && (!send_finished) {
                            let _ = &mut send_bucket_bootstrap;
                            {
                                send_finished = true;
                            }
                        } else if vx_sel == 1 && (!new_receivers_closed) {
                            let new_receiver = new_receivers_rx.recv();
                            {
                                if let Some(new_receiver) = new_receiver {
                                    receivers.push(new_receiver);
                                } else {
                                    new_receivers_closed = true;
                                }
                            }
                        } else if vx_sel == 2 && (!receivers.is_empty()) {
                            let ret = receivers.next();
                            {
                                if let Some(Some((message, from))) = ret {
                                    let ghost evb = tr.ev;
                                    self.handle_message(message, from, Tracked(tr));
                                    proof {
                                        lemma_answered_mono(evb, tr.ev);
                                        if tr.ev.len() > evb.len() { lemma_ids_other(evb, tr.ev[evb.len() as int], aid, h.s); }
                                    }
                                }
                            }
                        } else {
                            vx_select_idle((!send_finished) || (!new_receivers_closed) || (!receivers.is_empty())); // @C15.select_always_has_an_enabled_arm
                        }
                    }
                }
            }

            let (num_good_nodes, num_questionable_nodes) = {
                let table = self.table.lock().unwrap();
                (table.num_good_nodes(), table.num_questionable_nodes())
            };

            if num_good_nodes < GOOD_NODE_THRESHOLD {
                // If we don't have enought good nodes and the `router_addresses` array is empty
                // then we might be testing or we might be in a country that is blocked from the
                // outside world where no BtDHT exists yet and we're one of the first nodes
                // creating it. In those cases we'll claim that we've bootstrapped and repeat the
                // bootstrap process periodically.
                if !router_addresses.is_empty() {
                    self.set_state(State::IdleBeforeRebootstrap, line!(), Tracked(ps));
                    proof {
                        // ASSUMPTION A-attempts
                        assume(bootstrap_attempt < u64::MAX);
                    }
                    time::sleep(self.calculate_retry_duration(bootstrap_attempt));
                    bootstrap_attempt += 1;
                    continue;
                }
            }

            self.set_state(State::Bootstrapped, line!(), Tracked(ps));

            // Reset the counter.
            bootstrap_attempt = 0;

            loop
                invariant gen_ok(gc.v, h.s, tr.ev, aid),
                    answered(tr.ev), // @C15.not_bootstrapped_before_a_contact_answered
            {
                time::sleep(PERIODIC_CHECK_TIMEOUT);

                if self.table.lock().unwrap().num_good_nodes() < GOOD_NODE_THRESHOLD {
                    break;
                }
            }
        }
    }
//@end

//@begin fn src/action/bootstrap.rs impl:TableBootstrapInner send_to_initial_nodes rules=R-deasync props=C19,C15
    pub fn send_to_initial_nodes(
        &self,
        message: Message,
        router_addresses: &HashSet<SocketAddr>,
        new_receivers_tx: mpsc::UnboundedSender<Responded>,
        Tracked(tr): Tracked<&mut Trace>, Tracked(h): Tracked<&Hist>,
    )
        requires h.s.len() <= M() ==> !sent_id(old(tr).ev, message.transaction_id@), // @C19.first_round_id_is_fresh
        ensures extends(old(tr).ev, final(tr).ev),
            // the round sends the one shared query and nothing else
            forall|i: int| old(tr).ev.len() <= i < final(tr).ev.len() ==> #[trigger] final(tr).ev[i] is Send && final(tr).ev[i]->Send_0 == message, // @C19.first_round_shares_one_id
    {
        let ghost ev0 = tr.ev;
        let mut last_send_error = None;
        let mut count = 0;

        // A contact given both as a router and as a starting node is contacted only once: all the
        // requests of this round share one transaction id and the socket tracks pending requests
        // by (address, transaction id).
        for addr in it: vx_chain_difference(router_addresses, &self.starting_nodes)
            invariant ev0 == old(tr).ev, extends(ev0, tr.ev), count <= it.index@, it.snapshot@.remaining().len() <= usize::MAX,
                h.s.len() <= M() ==> !sent_id(ev0, message.transaction_id@),
                // one query per distinct address: a contact given both as router and as node is contacted once
                exists|k: int| chain_spec(it.snapshot@.remaining(), router_addresses@, self.starting_nodes@.difference(router_addresses@), k), // @C19.no_id_twice_towards_the_same_address @C15.duplicate_contacts_do_not_panic
                forall|i: int| ev0.len() <= i < tr.ev.len() ==> #[trigger] tr.ev[i] is Send && tr.ev[i]->Send_0 == message
                    && (exists|j: int| 0 <= j < it.index@ && tr.ev[i]->Send_1 == *it.snapshot@.remaining()[j]),
        {
            // Throttle sending if there is too many initial contacts
            if count > PINGS_PER_BUCKET {
                time::sleep(vx_duration_max(NODE_TIMEOUT, Self::nat_friendly_send_duration()));
            }

            proof {
                let s = it.snapshot@.remaining();
                let idx = it.index@;
                if h.s.len() <= M() && sent_to(tr.ev, message.transaction_id@, *addr) {
                    let i = choose|i: int| 0 <= i < tr.ev.len() && #[trigger] tr.ev[i] is Send && tr.ev[i]->Send_0.transaction_id@ == message.transaction_id@ && tr.ev[i]->Send_1 == *addr;
                    if i < ev0.len() {
                        assert(tr.ev[i] == ev0[i]);
                        assert(sent_id(ev0, message.transaction_id@));
                    } else {
                        let j = choose|j: int| 0 <= j < idx && tr.ev[i]->Send_1 == *s[j];
                        let k = choose|k: int| chain_spec(s, router_addresses@, self.starting_nodes@.difference(router_addresses@), k);
                        assert(*s[j] != *s[idx as int]);
                    }
                }
            }
            match self
                .socket
                .send_request(&message, *addr, INITIAL_TIMEOUT, Tracked(tr), Tracked(h))
            {
                Ok(receiver) => {
                    count += 1;
                    if new_receivers_tx.send(receiver).is_err() {
                        return;
                    }
                }
                Err(error) => {
                    if Some(error.kind()) != last_send_error {
                        last_send_error = Some(error.kind());
                    }
                }
            }
        }
    }
//@end

//@begin fn src/action/bootstrap.rs impl:TableBootstrapInner send_bucket_bootstrap_requests rules=R-deasync props=C19,C15
    pub fn send_bucket_bootstrap_requests(
        &self,
        bucket_number: usize,
        new_receivers_tx: mpsc::UnboundedSender<Responded>,
        Tracked(tr): Tracked<&mut Trace>, Tracked(h): Tracked<&mut Hist>, Tracked(gc): Tracked<&mut Own<MIDGenerator>>
    )
        requires bucket_number < 160, gen_ok(old(gc).v, old(h).s, old(tr).ev, old(gc).v.action_id),
        ensures gen_ok(final(gc).v, final(h).s, final(tr).ev, old(gc).v.action_id), extends(old(tr).ev, final(tr).ev),
            marks_ok(old(tr).ev, final(tr).ev, true), // @C10.every_query_sent_is_recorded_on_the_queried_record @C12.a_query_we_send_is_never_recorded_as_a_query_received
    {
        let ghost aid = gc.v.action_id;
        let ghost ev0 = tr.ev;
        proof { lemma_marks_refl(ev0, true); }
        let target_id = self.this_node_id.flip_bit(bucket_number);
        let nodes = self.nodes_to_bootstrap_bucket(bucket_number, target_id);

        let mut vx_i: usize = 0;
        while vx_i < nodes.len()
            invariant gen_ok(gc.v, h.s, tr.ev, aid), extends(ev0, tr.ev),
                marks_ok(ev0, tr.ev, true), // @C10.every_query_sent_is_recorded_on_the_queried_record @C12.a_query_we_send_is_never_recorded_as_a_query_received
            decreases nodes.len() - vx_i,
        {
            let node = nodes[vx_i];
            vx_i += 1;
            // Generate a transaction id
            let ghost h0 = h.s;
            let ghost evb = tr.ev;
            let trans_id = self.id_generator.lock(Tracked(gc)).unwrap().generate(Tracked(h));

            let find_node_msg =
                Self::make_find_node_request(trans_id, self.this_node_id, target_id);
            proof {
                assert(h.s.drop_last() == h0); // @C19.id_issued_for_this_round
                if h.s.len() <= M() {
                    lemma_fresh(tr.ev, gc.v, h.s, trans_id);
                    assert(sent_to(tr.ev, find_node_msg.transaction_id@, node.addr) ==> sent_id(tr.ev, find_node_msg.transaction_id@));
                }
                lemma_ids_mono(tr.ev, aid, h0, h.s);
            }

            // Send the message to the node
            match self
                .socket
                .send_request(&find_node_msg, node.addr, NODE_TIMEOUT, Tracked(tr), Tracked(h))
            {
                Ok(receiver) => {
                    proof { lemma_ids_round(evb, tr.ev, aid, h.s, find_node_msg.transaction_id@, trans_id); lemma_marks_other(ev0, evb, Ev::Send(find_node_msg, node.addr), true); }
                    if new_receivers_tx.send(receiver).is_err() {
                        break;
                    }
                }
                Err(error) => {
                    proof { lemma_ids_round(evb, tr.ev, aid, h.s, find_node_msg.transaction_id@, trans_id); lemma_marks_other(ev0, evb, Ev::Send(find_node_msg, node.addr), true); }
                    continue;
                }
            }

            // Mark that we requested from the node
            let ghost evc = tr.ev;
            if let Some(node) = self.table.lock().unwrap().find_node_mut(&node, Tracked(tr)) {
                proof { lemma_ids_other(evc, tr.ev[evc.len() as int], aid, h.s); }
                node.local_request(Tracked(tr));
                proof { lemma_marks_hit(ev0, evc, node.handle, true); }
            } else {
                proof { lemma_ids_other(evc, tr.ev[evc.len() as int], aid, h.s); lemma_marks_miss(ev0, evc, node, true); }
            }
        }
    }
//@end

//@begin fn src/action/bootstrap.rs impl:TableBootstrapInner nat_friendly_send_duration
    pub fn nat_friendly_send_duration() -> Duration {
        // An answer on serverfault.com[1] says the average home router may have from 2^10
        // to 2^14 NAT entries. To be conservative, and to account for the fact that the
        // user may be running one IPv4 and one IPv6 `MainlineDht`, let's assume we don't
        // want to exceed 256 NAT entries by much. A NAT entry stays open up to 20 secods
        // before it's deleted. Thus let's sleep for 20s/256 so that after 20 seconds if we
        // contact another node, the first nodes we contacted shall begin being removed
        // from the NAT.
        //
        // [1] https://serverfault.com/a/57903
        Duration::from_millis(20_000 / 256)
    }
//@end

//@begin fn src/action/bootstrap.rs impl:TableBootstrapInner handle_message props=C12,C15
    pub fn handle_message(&self, message: Message, from: SocketAddr, Tracked(tr): Tracked<&mut Trace>) -> (r: bool)
        ensures
            // C12 (bootstrap path): only a response can offer nodes to the table; a query or error arriving here adds nothing
            !(message.body is Response) ==> !r && final(tr).ev == old(tr).ev, // @C12.bootstrap_queries_and_errors_add_nothing
            message.body is Response ==> r && final(tr).ev == old(tr).ev.push(Ev::TableAdd(NodeHandle { id: message.body->Response_0.id, addr: from },
                (if sa_is_v4(self.socket.local_addr) { message.body->Response_0.nodes_v4@ } else { message.body->Response_0.nodes_v6@ }))), // @C12.bootstrap_responder_good_named_nodes_hearsay
    {
        match message.body {
            MessageBody::Response(rsp) => {
                let node = Node::as_good(rsp.id, from);

                let nodes = match self.socket.ip_version() {
                    IpVersion::V4 => &rsp.nodes_v4,
                    IpVersion::V6 => &rsp.nodes_v6,
                };

                self.table.lock().unwrap().add_nodes(node, nodes, Tracked(tr));

                true
            }
            _ => false,
        }
    }
//@end

//@begin fn src/action/bootstrap.rs impl:TableBootstrapInner make_find_node_request props=C19,C17
    pub fn make_find_node_request(
        transaction_id: TransactionID,
        id: NodeId,
        target: NodeId,
    ) -> (m: Message)
        ensures m.transaction_id@ == transaction_id.bytes@, m.transaction_id@.len() == 8, // @C19.bootstrap_queries_carry_8_byte_ids
            m.body matches MessageBody::Request(Request::FindNode(f)) && f.id == id && f.target == target && f.want is None,
            blen(m) <= 1500, // @C17.bootstrap_queries_fit_1500_bytes
    {
        proof { lemma_consts(); }
        Message {
            transaction_id: transaction_id.as_ref().to_vec(),
            body: MessageBody::Request(Request::FindNode(FindNodeRequest {
                id,
                target,
                want: None, // we want only contacts of the same address family we have.
            })),
        }
    }
//@end

//@begin fn src/action/bootstrap.rs impl:TableBootstrapInner calculate_retry_duration props=C15
    pub fn calculate_retry_duration(&self, bootstrap_attempt: u64) -> (r: Duration)
        requires bootstrap_attempt < u64::MAX,
        ensures 2_000_000_000 <= dur_nanos(r) <= 512_000_000_000, // @C15.retry_back_off_between_2_s_and_512_s
    {
        const BASE: u64 = 2;
        proof {
            lemma_pow2_small(if bootstrap_attempt + 1 <= 9 { (bootstrap_attempt + 1) as nat } else { 9nat });
        }
        // Max is somewhere around 8.5 mins.
        Duration::from_secs(BASE.pow(vx_min_u64(bootstrap_attempt + 1, 9) as u32))
    }
//@end
    // ASSUMED: bootstrap.rs:456-504 (iterator chains over buckets, outside Verus' subset) yields some node handles; each one
    // gets its own fresh transaction id, so nothing about them is needed
    #[verifier::external_body]
    pub fn nodes_to_bootstrap_bucket(&self, bucket_number: usize, target_id: NodeId) -> Vec<NodeHandle> { unimplemented!() }
}
