// ================= message.rs: the message value types =================
//@begin type src/message.rs - type TransactionId
pub type TransactionId = Vec<u8>;
//@end
//@begin type src/message.rs - struct Message
pub struct Message {
    pub transaction_id: TransactionId,
    pub body: MessageBody,
}
//@end
// TRUSTED: #[derive(Clone)] on Message (message.rs) yields an equal value
impl Clone for Message { #[verifier::external_body] fn clone(&self) -> (r: Message) ensures r == *self { unimplemented!() } }
//@begin type src/message.rs - enum MessageBody
pub enum MessageBody {
    Request(Request),
    Response(Response),
    Error(Error),
}
//@end
//@begin type src/message.rs - enum Request
pub enum Request {
    FindNode(FindNodeRequest),
    AnnouncePeer(AnnouncePeerRequest),
    GetPeers(GetPeersRequest),
    Ping(PingRequest),
}
//@end
//@begin type src/message.rs - struct PingRequest
pub struct PingRequest {
    pub id: NodeId,
}
//@end
//@begin type src/message.rs - struct FindNodeRequest
pub struct FindNodeRequest {
    pub id: NodeId,
    pub target: NodeId,
    pub want: Option<Want>,
}
//@end
//@begin type src/message.rs - struct GetPeersRequest
pub struct GetPeersRequest {
    pub id: NodeId,
    pub info_hash: InfoHash,
    pub want: Option<Want>,
}
//@end
//@begin type src/message.rs - struct AnnouncePeerRequest
pub struct AnnouncePeerRequest {
    pub id: NodeId,
    pub info_hash: InfoHash,
    pub port: Option<u16>,
    pub token: Vec<u8>,
}
//@end
//@begin type src/message.rs - enum Want
#[derive(Structural, Clone, Copy, Eq, PartialEq)]
pub enum Want {
    V4,
    V6,
    Both,
}
//@end
//@begin type src/message.rs - struct Response
pub struct Response {
    pub id: NodeId,
    pub values: Vec<SocketAddr>,
    pub nodes_v4: Vec<NodeHandle>,
    pub nodes_v6: Vec<NodeHandle>,
    pub token: Option<Vec<u8>>,
}
//@end
//@begin type src/message.rs - struct Error
pub struct Error {
    pub code: u8,
    pub message: String,
}
//@end
pub mod error_code {
//@begin const src/message.rs mod:error_code GENERIC_ERROR
    pub const GENERIC_ERROR: u8 = 201;
//@end
//@begin const src/message.rs mod:error_code SERVER_ERROR
    pub const SERVER_ERROR: u8 = 202;
//@end
//@begin const src/message.rs mod:error_code PROTOCOL_ERROR
    pub const PROTOCOL_ERROR: u8 = 203;
//@end
//@begin const src/message.rs mod:error_code METHOD_UNKNOWN
    pub const METHOD_UNKNOWN: u8 = 204;
//@end
}
