// ================= action/refresh.rs =================
pub mod table {
    use super::*;
//@begin const src/table.rs - MAX_BUCKETS
    pub const MAX_BUCKETS: usize = INFO_HASH_LEN * 8;
//@end
}
//@begin const src/action/refresh.rs - REFRESH_INTERVAL_TIMEOUT
pub exec const REFRESH_INTERVAL_TIMEOUT: Duration ensures dur_nanos(REFRESH_INTERVAL_TIMEOUT) == 6_000_000_000 { Duration::from_millis(6000) }
//@end
//@begin const src/action/refresh.rs - REFRESH_CONCURRENCY
pub const REFRESH_CONCURRENCY: usize = 4;
//@end
//@begin type src/action/refresh.rs - struct TableRefresh
pub struct TableRefresh {
    pub table: Arc<Mutex<RoutingTable>>,
    pub id_generator: MIDGenerator,
    pub curr_refresh_bucket: usize,
    pub next_refresh: Option<Timeout>,
}
//@end
// bootstrap task handle: only the published state is read by the handler
//@begin type src/action/bootstrap.rs - enum State
#[derive(Structural, Eq, PartialEq, Copy, Clone)]
pub enum State {
    AwaitStart,
    InitialContact,
    Bootstrapping,
    Bootstrapped,
    IdleBeforeRebootstrap,
}
//@end
pub mod bootstrap {
    pub use super::State;
}
// tokio::sync::watch stand-in: `borrow()` yields the current value, which another task may change at any time
pub mod watch {
    use super::*;
    pub struct Receiver<T> { pub t: core::marker::PhantomData<T> }
    pub uninterp spec fn val<T>(r: Receiver<T>) -> T;
    pub struct RecvError;
    impl<T> Receiver<T> {
        #[verifier::external_body]
        pub fn borrow(&self) -> (r: &T) ensures *r == val(*self) { unimplemented!() }
        /// resolves when the bootstrap task publishes a new state.  ASSUMED `Ok`: the sender lives in the bootstrap task, whose `run` never returns and
        /// whose reachable panics are excluded in unit `bootstrap` (C15 (c)); if that task died this would be Err and handler.rs:131 would panic
        #[verifier::external_body]
        pub fn changed(&mut self) -> (r: Result<(), RecvError>) ensures r is Ok { unimplemented!() }
    }
}
pub struct TableBootstrap { pub state_rx: watch::Receiver<bootstrap::State> }
impl TableBootstrap {
    // bootstrap.rs:76-104: creates the watch channels and spawns the bootstrap task (unit `bootstrap`); the handler only reads the published state
    #[verifier::external_body]
    pub fn new(socket: Arc<Socket>, table: Arc<Mutex<RoutingTable>>, id_generator: MIDGenerator, routers: HashSet<String>, nodes: HashSet<SocketAddr>) -> TableBootstrap { unimplemented!() }
    // bootstrap.rs:106-109: tells the bootstrap task to start (a watch send)
    #[verifier::external_body]
    pub fn start(&self) { unimplemented!() }
}
// tokio::sync::oneshot stand-in (bootstrap waiters): sending consumes the sender and touches nothing else
pub mod oneshot {
    use super::*;
    pub struct Sender<T> { pub t: core::marker::PhantomData<T> }
    impl<T> Sender<T> {
        #[verifier::external_body]
        pub fn send(self, t: T) -> Result<(), T> { unimplemented!() }
    }
}
// R-abs: `for (_, tx) in self.bootstrap_txs.drain() { tx.send(()).unwrap_or(()) }` (HashMap::drain / oneshot are outside the subset;
// notifying waiters touches no state any claimed property depends on)
#[verifier::external_body]
pub fn vx_notify_all(txs: &mut HashMap<u64, oneshot::Sender<()>>)
    ensures final(txs)@.len() == 0
{ unimplemented!() }
// TRUSTED: u64 keys obey the hash-map key model (vstd states it for the primitive integer types)
/// HashMap::get_mut touches no other key (from the frame clause of its trusted contract)
pub proof fn lemma_get_mut_dom(o: Map<ActionID, TableLookup>, n: Map<ActionID, TableLookup>, k: ActionID)
    requires obeys_key_model::<ActionID>(), o.contains_key(k), n.contains_key(k),
        forall|rest: Map<ActionID, TableLookup>| #[trigger] borrowed_key_removed(o, rest, &k) ==> borrowed_key_removed(n, rest, &k),
    ensures forall|kk: ActionID| kk != k ==> (#[trigger] n.contains_key(kk) == o.contains_key(kk))
{
    broadcast use vstd::std_specs::hash::group_hash_axioms;
    assert(borrowed_key_removed(o, o.remove(k), &k));
    assert(n.remove(k) == o.remove(k));
    assert forall|kk: ActionID| kk != k implies (#[trigger] n.contains_key(kk) == o.contains_key(kk)) by {
        assert(n.remove(k).contains_key(kk) == o.remove(k).contains_key(kk));
    }
}
/// what a call of handle_lookup_completed that a change added or moved is given as its reason: some search about which nothing is known,
/// so the precondition "a search is closed only when it reports Completed" has to be proved at that call
pub uninterp spec fn vx_some_search() -> TableLookup;
//@ghost_default handle_lookup_completed 1 : Tracked(tr), Ghost(Some(vx_some_search()))
pub open spec fn aid_of(t: TransactionID) -> ActionID { ActionID { action_id: tid_value(t) >> 24 } }
/// C15: the waiters' keys are below the next key to be handed out, so a new waiter never takes the key of one still waiting
pub open spec fn waiters_ok(h: DhtHandler) -> bool {
    forall|k: u64| #[trigger] h.bootstrap_txs@.contains_key(k) ==> k < h.next_bootstrap_txs_id
}

/// C18 invariant: every pending table-refresh timeout is the one the refresh object remembers -- hence at most one
pub open spec fn chain_ok(r: TableRefresh, t: Timer<ScheduledTaskCheck>) -> bool {
    t.wf()
    && (forall|k: Timeout| #[trigger] t.pending@.contains_key(k) && t.pending@[k] is TableRefresh ==> r.next_refresh == Some(k))
    && (r.next_refresh is Some ==> r.next_refresh->0.id < t.next_id
            && (t.pending@.contains_key(r.next_refresh->0) ==> t.pending@[r.next_refresh->0] is TableRefresh))
}
/// C11: a node a refresh round may ping: questionable standing and not queried by us in the recent past
pub open spec fn refresh_candidate(h: NodeHandle) -> bool {
    exists|n: Node| #[trigger] n.handle == h && spec_status(n) == NodeStatus::Questionable && !spec_recent(n)
}
/// C11: every ping of a refresh round is followed by the lookup of the pinged node's record (which, when found, is then marked: marks_ok)
#[verifier::opaque]
pub open spec fn pings_are_looked_up(o: Seq<Ev>, f: Seq<Ev>) -> bool {
    forall|i: int| o.len() <= i < f.len() && #[trigger] f[i] is Send ==> i + 1 < f.len() && f[i + 1] is TableFind && f[i + 1]->TableFind_0.addr == f[i]->Send_1
}
pub proof fn lemma_pings_refl(o: Seq<Ev>) ensures pings_are_looked_up(o, o) { reveal(pings_are_looked_up); }
/// one iteration of the round: [Send to a, TableFind(h with h.addr == a, found)] and, when found, [Mark]
pub proof fn lemma_pings_step(o: Seq<Ev>, m: Seq<Ev>, f: Seq<Ev>)
    requires pings_are_looked_up(o, m), o.len() <= m.len(), extends(m, f), m.len() + 2 <= f.len() <= m.len() + 3,
        f[m.len() as int] is Send, f[m.len() as int + 1] is TableFind, f[m.len() as int + 1]->TableFind_0.addr == f[m.len() as int]->Send_1,
        f.len() == m.len() + 3 ==> f[m.len() as int + 2] is Mark,
    ensures pings_are_looked_up(o, f)
{
    reveal(pings_are_looked_up);
    assert forall|i: int| o.len() <= i < f.len() && #[trigger] f[i] is Send implies i + 1 < f.len() && f[i + 1] is TableFind && f[i + 1]->TableFind_0.addr == f[i]->Send_1 by {
        if i < m.len() { assert(m[i] is Send); assert(f[i + 1] == m[i + 1]); }
    }
}
/// a refresh query: find_node with an 8-byte transaction id carrying the refresh action's 5-byte prefix
pub open spec fn refresh_query(m: Message, action: u64) -> bool {
    m.transaction_id@.len() == 8 && (m.body matches MessageBody::Request(Request::FindNode(_)))
    && forall|t: TransactionID| #[trigger] t.bytes@ == m.transaction_id@ ==> tid_value(t) >> 24 == action >> 24
}
//@props C18
pub proof fn lemma_single_chain(r: TableRefresh, t: Timer<ScheduledTaskCheck>, a: Timeout, b: Timeout)
    requires chain_ok(r, t), t.pending@.contains_key(a), t.pending@[a] is TableRefresh, t.pending@.contains_key(b), t.pending@[b] is TableRefresh
    ensures a == b // @C18.at_most_one_pending_refresh_round
{}

impl TableRefresh {
//@begin fn src/action/refresh.rs impl:TableRefresh new props=C18,C11
    pub fn new(id_generator: MIDGenerator, table: Arc<Mutex<RoutingTable>>) -> (r: TableRefresh)
        ensures r.next_refresh is None, // @C18.no_refresh_timeout_remembered_at_start
            r.curr_refresh_bucket <= 160, // @C11.refresh_cursor_starts_in_range @C18.refresh_cursor_starts_in_range
            r.id_generator == id_generator,
    {
        TableRefresh {
            table,
            id_generator,
            curr_refresh_bucket: 0,
            next_refresh: None,
        }
    }
//@end

//@begin fn src/action/refresh.rs impl:TableRefresh action_id
    pub fn action_id(&self) -> (r: ActionID) ensures r.action_id == self.id_generator.action_id >> 24 {
        self.id_generator.action_id()
    }
//@end

//@begin fn src/action/refresh.rs impl:TableRefresh continue_refresh rules=R-deasync props=C18,C19,C11
    #[verifier::loop_isolation(false)]
    pub fn continue_refresh(
        &mut self,
        socket: &Socket,
        timer: &mut Timer<ScheduledTaskCheck>,
        Tracked(tr): Tracked<&mut Trace>,
    )
        requires old(self).curr_refresh_bucket <= 160, chain_ok(*old(self), *old(timer)),
        ensures final(self).curr_refresh_bucket <= 160, // @C18.cursor_stays_in_range
            // C11: the round looks at the neighbourhood of the next bucket: the cursor advances by one bucket per round and wraps after bucket 159
            final(self).curr_refresh_bucket == (if old(self).curr_refresh_bucket == 160 { 0int } else { old(self).curr_refresh_bucket as int }) + 1, // @C11.cursor_advances_one_bucket_per_round
            // C11: only questionable nodes that were not queried recently are pinged
            forall|i: int| old(tr).ev.len() <= i < final(tr).ev.len() && #[trigger] final(tr).ev[i] is Send ==> (exists|h: NodeHandle| #[trigger] refresh_candidate(h) && h.addr == final(tr).ev[i]->Send_1), // @C11.a_refresh_round_pings_only_questionable_nodes_not_queried_recently
            chain_ok(*final(self), *final(timer)), // @C18.single_refresh_chain
            final(self).id_generator.action_id == old(self).id_generator.action_id,
            // exactly one refresh round is pending afterwards, 6 s ahead
            final(self).next_refresh is Some && final(timer).pending@.contains_key(final(self).next_refresh->0)
                && final(timer).pending@[final(self).next_refresh->0] is TableRefresh
                && final(self).next_refresh->0.deadline.t as int == tclock() + 6_000_000_000, // @C18.next_round_scheduled_6s_ahead @C11.refresh_reschedules_itself_every_6_s
            // every other timeout is untouched
            forall|k: Timeout| !(old(timer).pending@.contains_key(k) && old(timer).pending@[k] is TableRefresh) && k != final(self).next_refresh->0
                ==> (final(timer).pending@.contains_key(k) == old(timer).pending@.contains_key(k) && (old(timer).pending@.contains_key(k) ==> final(timer).pending@[k] == old(timer).pending@[k])), // @C18.other_timeouts_untouched
            // a round sends at most 4 find_node queries (8-byte transaction ids of the refresh action) and nothing else
            only_requests_and_yields(old(tr).ev, final(tr).ev), no_yield(old(tr).ev, final(tr).ev), final(tr).ev.len() <= old(tr).ev.len() + 12, // @C18.round_is_at_most_4_queries
            // C11: every ping is counted on the pinged node's record when the table (still) knows it -- the input of "two unanswered queries make a stale node bad"
            pings_are_looked_up(old(tr).ev, final(tr).ev), // @C11.every_refresh_ping_is_counted_on_the_pinged_record
            marks_ok(old(tr).ev, final(tr).ev, true), // @C11.every_refresh_ping_is_counted_on_the_pinged_record @C10.every_query_sent_is_recorded_on_the_queried_record @C12.a_query_we_send_is_never_recorded_as_a_query_received
            forall|i: int| old(tr).ev.len() <= i < final(tr).ev.len() && #[trigger] final(tr).ev[i] is Send ==> refresh_query(final(tr).ev[i]->Send_0, old(self).id_generator.action_id), // @C19.refresh_queries_carry_8_byte_ids_of_the_refresh_action
            forall|i: int| old(tr).ev.len() <= i < final(tr).ev.len() && #[trigger] final(tr).ev[i] is Send ==> blen(final(tr).ev[i]->Send_0) <= 1500, // @C17.refresh_queries_fit_1500_bytes
    {
        proof { lemma_consts(); }
        let ghost ev0 = tr.ev;
        proof { lemma_marks_refl(ev0, true); lemma_pings_refl(ev0); }
        if self.curr_refresh_bucket == table::MAX_BUCKETS {
            self.curr_refresh_bucket = 0;
        }

        let (this_node_id, target_id, num_good_nodes, num_questionable_nodes, nodes_to_contact) = {
            let table = self.table.lock().unwrap();

            let this_node_id = table.node_id();
            let target_id = this_node_id.flip_bit(self.curr_refresh_bucket);
            let num_good_nodes = table.num_good_nodes();
            let num_questionable_nodes = table.num_questionable_nodes();
            let nodes_to_contact = table
                .closest_nodes(target_id)
                .filter(|n: &&Node| -> (b: bool) ensures b == (spec_status(**n) == NodeStatus::Questionable) { n.status() == NodeStatus::Questionable })
                .filter(|n: &&Node| -> (b: bool) ensures b == !spec_recent(**n) { !n.recently_requested_from() })
                .take(REFRESH_CONCURRENCY)
                .map(|node: &Node| -> (h: NodeHandle) ensures h == node.handle { *node.handle() })
                .collect::<Vec<_>>();
            assert(forall|i: int| 0 <= i < nodes_to_contact@.len() ==> refresh_candidate(#[trigger] nodes_to_contact@[i])); // @C11.a_refresh_round_pings_only_questionable_nodes_not_queried_recently

            (
                this_node_id,
                target_id,
                num_good_nodes,
                num_questionable_nodes,
                nodes_to_contact,
            )
        };

        // Ping the closest questionable nodes
        for node in it: nodes_to_contact
            invariant it.snapshot@.remaining().len() <= 4, 0 <= it.index@ <= it.snapshot@.remaining().len(),
                forall|i: int| 0 <= i < it.snapshot@.remaining().len() ==> refresh_candidate(#[trigger] it.snapshot@.remaining()[i]),
                forall|i: int| ev0.len() <= i < tr.ev.len() && #[trigger] tr.ev[i] is Send ==> (exists|h: NodeHandle| #[trigger] refresh_candidate(h) && h.addr == tr.ev[i]->Send_1), // @C11.a_refresh_round_pings_only_questionable_nodes_not_queried_recently
                self.curr_refresh_bucket == old(self).curr_refresh_bucket || self.curr_refresh_bucket == 0, self.curr_refresh_bucket < 160,
                self.next_refresh == old(self).next_refresh, self.id_generator.action_id == old(self).id_generator.action_id,
                *timer == *old(timer),
                only_requests_and_yields(ev0, tr.ev), no_yield(ev0, tr.ev), tr.ev.len() <= ev0.len() + 3 * it.index@,
                pings_are_looked_up(ev0, tr.ev), // @C11.every_refresh_ping_is_counted_on_the_pinged_record
                marks_ok(ev0, tr.ev, true), // @C11.every_refresh_ping_is_counted_on_the_pinged_record @C10.every_query_sent_is_recorded_on_the_queried_record @C12.a_query_we_send_is_never_recorded_as_a_query_received
                forall|i: int| ev0.len() <= i < tr.ev.len() && #[trigger] tr.ev[i] is Send ==> refresh_query(tr.ev[i]->Send_0, old(self).id_generator.action_id),
                forall|i: int| ev0.len() <= i < tr.ev.len() && #[trigger] tr.ev[i] is Send ==> blen(tr.ev[i]->Send_0) <= 1500, // @C17.refresh_queries_fit_1500_bytes
        {
            // Generate a transaction id for the request
            let trans_id = self.id_generator.generate();

            // Construct the message
            let find_node_req = FindNodeRequest {
                id: this_node_id,
                target: target_id,
                want: None,
            };
            let find_node_msg = Message {
                transaction_id: trans_id.as_ref().to_vec(),
                body: MessageBody::Request(Request::FindNode(find_node_req)),
            };

            proof {
                assert forall|t: TransactionID| #[trigger] t.bytes@ == find_node_msg.transaction_id@ implies t == trans_id by { assert(t.bytes =~= trans_id.bytes); }
            }

            // Send the message
            let ghost evs = tr.ev;
            if let Err(error) = socket.send(&find_node_msg, node.addr, Tracked(tr)) {
            }
            proof { lemma_marks_other(ev0, evs, Ev::Send(find_node_msg, node.addr), true); }
            let ghost evf = tr.ev;

            // Mark that we requested from the node
            if let Some(node) = self.table.lock().unwrap().find_node_mut(&node, Tracked(tr)) {
                node.local_request(Tracked(tr));
                proof { lemma_marks_hit(ev0, evf, node.handle, true); }
            } else {
                proof { lemma_marks_miss(ev0, evf, node, true); }
            }
            proof { lemma_pings_step(ev0, evs, tr.ev); }
        }

        // Start a timer for the next refresh. If the previous one is still pending (the refresh was
        // restarted, e.g. after a re-bootstrap), cancel it so there is only ever one refresh chain.
        if let Some(timeout) = self.next_refresh.take() {
            timer.cancel(timeout);
        }
        self.next_refresh =
            Some(timer.schedule_in(REFRESH_INTERVAL_TIMEOUT, ScheduledTaskCheck::TableRefresh));

        self.curr_refresh_bucket += 1;
    }
//@end
}

// ================= handler.rs =================
//@begin type src/action/mod.rs - enum OneshotTask
pub enum OneshotTask {
    StartBootstrap(),
    CheckBootstrap(oneshot::Sender<()>),
    StartLookup(StartLookup),
    GetLocalAddr(oneshot::Sender<SocketAddr>),
    GetState(oneshot::Sender<State>),
    LoadContacts(oneshot::Sender<(HashSet<SocketAddr>, HashSet<SocketAddr>)>),
}
//@end
//@begin type src/handler.rs - struct DhtHandler
pub struct DhtHandler {
    pub running: bool,
    pub command_rx: mpsc::UnboundedReceiver<OneshotTask>,
    pub this_node_id: NodeId,
    pub timer: Timer<ScheduledTaskCheck>,
    pub read_only: bool,
    pub announce_port: Option<u16>,
    pub socket: Arc<Socket>,
    pub token_store: TokenStore,
    pub aid_generator: AIDGenerator,
    pub routing_table: Arc<Mutex<RoutingTable>>,
    pub active_stores: AnnounceStorage,
    pub bootstrap: TableBootstrap,
    pub next_bootstrap_txs_id: u64,
    pub bootstrap_txs: HashMap<u64, oneshot::Sender<()>>,
    pub initial_bootstrap_done: bool,
    pub pending_lookups: Vec<StartLookup>,
    pub refresh: TableRefresh,
    pub lookups: HashMap<ActionID, TableLookup>,
}
//@end


impl DhtHandler {

//@begin fn src/handler.rs impl:DhtHandler new props=C18,C16,C11,C04,C07
    pub fn new(
        this_node_id: NodeId,
        socket: Socket,
        read_only: bool,
        routers: HashSet<String>,
        nodes: HashSet<SocketAddr>,
        announce_port: Option<u16>,
        command_rx: mpsc::UnboundedReceiver<OneshotTask>,
    ) -> (r: Self)
        ensures
            // base case of the handler invariant that run_once / every handle_* preserves: no refresh timeout is pending or remembered, the peer store is well formed
            r.hinv(), // @C18.single_refresh_chain @C11.single_refresh_chain
            forall|k: Timeout| !r.timer.pending@.contains_key(k), // @C18.nothing_scheduled_before_the_first_bootstrap @C04.nothing_scheduled_before_the_first_bootstrap
            r.refresh.next_refresh is None, // @C18.no_refresh_timeout_remembered_at_start
            // C16: a fresh handler has not finished its initial bootstrap and holds no queued search
            !r.initial_bootstrap_done, // @C16.initial_bootstrap_not_done_at_start
            r.pending_lookups@.len() == 0, // @C16.no_search_queued_at_start
            // C07: the peer store starts empty
            r.active_stores.expires@.len() == 0, // @C07.store_starts_empty
            r.running, // @carrier.handler_starts_running
            r.this_node_id == this_node_id && r.read_only == read_only && r.announce_port == announce_port, // @carrier.constructor_keeps_its_arguments
    {
        let socket = Arc::new(socket);
        let table = Arc::new(Mutex::new(RoutingTable::new(this_node_id)));

        let mut aid_generator = AIDGenerator::new();

        // The refresh task to execute after the bootstrap
        let mid_generator = aid_generator.generate();
        let table_refresh = TableRefresh::new(mid_generator, table.clone());

        let mid_generator = aid_generator.generate();
        let bootstrap =
            TableBootstrap::new(socket.clone(), table.clone(), mid_generator, routers, nodes);

        let timer = Timer::new();

        Self {
            this_node_id,
            running: true,
            command_rx,
            timer,
            read_only,
            announce_port,
            socket,
            token_store: TokenStore::new(),
            aid_generator,
            routing_table: table,
            active_stores: AnnounceStorage::new(),
            bootstrap,
            next_bootstrap_txs_id: 0,
            bootstrap_txs: HashMap::new(),
            initial_bootstrap_done: false,
            pending_lookups: Vec::new(),
            refresh: table_refresh,
            lookups: HashMap::new(),
        }
    }
//@end

//@begin fn src/handler.rs impl:DhtHandler run rules=R-deasync,R-mutself props=C18,C11
    #[verifier::exec_allows_no_decreases_clause]
    pub fn run(&mut self, Tracked(tr): Tracked<&mut Trace>)
        requires old(self).hinv(),
        ensures final(self).hinv(), // @C18.single_refresh_chain @C11.single_refresh_chain
            extends(old(tr).ev, final(tr).ev),
    {
        while self.running
            invariant self.hinv(), // @C18.single_refresh_chain @C11.single_refresh_chain
                extends(old(tr).ev, tr.ev),
        {
            self.run_once(Tracked(tr))
        }
    }
//@end

//@begin fn src/handler.rs impl:DhtHandler run_once rules=R-deasync,R-select props=C14,C15,C16,C18,C11,C04
    pub fn run_once(&mut self, Tracked(tr): Tracked<&mut Trace>)
        requires old(self).hinv(),
        ensures final(self).hinv(), // @C18.single_refresh_chain
            extends(old(tr).ev, final(tr).ev),
    {
        let ghost mut arm: int = -1;
        let ghost mut fired: Option<Option<ScheduledTaskCheck>> = None;
        let ghost mut completed = false;
        let vx_ret = {
            let vx_sel = vx_select();
            if vx_sel == 0 && (!self.timer.is_empty()) {
                let token = self.timer.next();
                proof { arm = 0; fired = Some(token); }
                {
                    // `unwrap` is OK because we checked the timer is non-empty, so it should never
                    // return `None`.
                    let token = token.unwrap();
                    self.handle_timeout(token, Tracked(tr))
                }
            } else if vx_sel == 1 && (true) {
                let command = self.command_rx.recv();
                {
                    if let Some(command) = command {
                        self.handle_command(command, Tracked(tr))
                    } else {
                        self.shutdown()
                    }
                }
            } else if vx_sel == 2 && (true) {
                let result = self.bootstrap.state_rx.changed();
                proof { arm = 2; completed = self.spec_bootstrapped(); }
                {
                    vx_assert(result.is_ok()); // @C15.the_handler_outlives_state_changes_of_the_bootstrap_task
                    if self.is_bootstrapped() {
                        self.handle_bootstrap_success(Tracked(tr));
                    }
                }
            } else if vx_sel == 3 && (true) {
                let message = self.socket.recv();
                {
                    match message {
                        Ok((message, addr)) => if let Err(error) = self.handle_incoming(message, addr, Tracked(tr)) {
                        }
                        Err(error) => (),
                    }
                }
            } else {
                vx_select_idle((!self.timer.is_empty()) || (true) || (true) || (true)); // @C14.select_always_has_an_enabled_arm
            }
        };
        proof {
            // every transition to Bootstrapped starts the queued searches and one refresh round
            assert(arm == 2 && completed ==> self.initial_bootstrap_done && self.pending_lookups@.len() == 0 && self.one_refresh_pending()); // @C16.bootstrap_completion_releases_the_queued_searches @C18.one_round_per_bootstrap_completion @C11.refresh_starts_at_bootstrap_completion
            // a state change that is not a completion starts no refresh round
            assert(arm == 2 && !completed ==> no_new_refresh(old(self).timer, self.timer) && self.refresh == old(self).refresh); // @C18.no_refresh_round_without_a_completion_or_a_refresh_timeout
            // a fired refresh timeout runs a round and schedules the next one
            assert(arm == 0 && fired == Some(Some(ScheduledTaskCheck::TableRefresh)) ==> self.one_refresh_pending()); // @C11.every_refresh_timeout_runs_a_round_and_schedules_the_next @C18.next_round_scheduled_6s_ahead
        }
        vx_ret
    }
//@end

//@begin fn src/handler.rs impl:DhtHandler handle_command rules=R-deasync props=C14,C15,C16,C04
    pub fn handle_command(&mut self, task: OneshotTask, Tracked(tr): Tracked<&mut Trace>)
        requires old(self).hinv(),
        ensures final(self).hinv(), extends(old(tr).ev, final(tr).ev),
    {
        match task {
            OneshotTask::StartBootstrap() => {
                self.handle_start_bootstrap();
            }
            OneshotTask::CheckBootstrap(tx) => {
                self.handle_check_bootstrap(tx);
            }
            OneshotTask::StartLookup(lookup) => {
                self.handle_start_lookup(lookup, Tracked(tr));
            }
            OneshotTask::GetLocalAddr(tx) => self.handle_get_local_addr(tx),
            OneshotTask::GetState(tx) => self.handle_get_state(tx),
            OneshotTask::LoadContacts(tx) => self.handle_load_contacts(tx),
        }
    }
//@end

//@begin fn src/handler.rs impl:DhtHandler shutdown nopub=1 props=C14
    fn shutdown(&mut self)
        ensures final(self).hinv() == old(self).hinv(), !final(self).running,
    {
        self.running = false;
    }
//@end

//@begin fn src/handler.rs impl:DhtHandler handle_start_bootstrap nopub=1 props=C15
    fn handle_start_bootstrap(&mut self)
        ensures *final(self) == *old(self),
    {
        self.bootstrap.start();
    }
//@end
    // read-only API answers over oneshot channels: they take &self and have no access to the effect trace, so by their signature they send no datagram and change no handler
    // state; what is proved on the real text is that they cannot panic (C14: the lock's `unwrap`, a closed channel is swallowed)
//@begin fn src/handler.rs impl:DhtHandler handle_get_local_addr nopub=1 props=C14
    fn handle_get_local_addr(&self, tx: oneshot::Sender<SocketAddr>) {
        tx.send(self.socket.local_addr()).unwrap_or(())
    }
//@end
    // ASSUMED (handler.rs:467-477: `table.buckets().count()` -- Iterator::count has no specification)
    #[verifier::external_body]
    fn handle_get_state(&self, tx: oneshot::Sender<State>) { unimplemented!() }
//@begin fn src/handler.rs impl:DhtHandler handle_load_contacts nopub=1 props=C14
    fn handle_load_contacts(
        &self,
        tx: oneshot::Sender<(HashSet<SocketAddr>, HashSet<SocketAddr>)>,
    ) {
        tx.send(self.routing_table.lock().unwrap().load_contacts())
            .unwrap_or(());
    }
//@end

//@begin fn src/handler.rs impl:DhtHandler ip_version nopub=1
    fn ip_version(&self) -> (r: IpVersion)
        ensures r == (if sa_is_v4(self.socket.local_addr) { IpVersion::V4 } else { IpVersion::V6 }),
    {
        self.socket.ip_version()
    }
//@end
}

pub open spec fn same_family(addr: SocketAddr) -> spec_fn(SocketAddr) -> bool { |a: SocketAddr| sa_is_v4(addr) == sa_is_v4(a) }
pub open spec fn req_sender(r: Request) -> NodeId {
    match r { Request::Ping(p) => p.id, Request::FindNode(f) => f.id, Request::GetPeers(g) => g.id, Request::AnnouncePeer(a) => a.id }
}
/// the events of a served query: [mark the sender if it is a known live node, one message to the source]
pub open spec fn is_query_reply(d: Seq<Ev>, message: Message, addr: SocketAddr, my_id: NodeId) -> bool {
    (d.len() == 2 || (d.len() == 3 && d[1] is Mark)) && d[0] is TableFind && d.last() is Send && d.last()->Send_1 == addr
    && d.last()->Send_0.transaction_id@ == message.transaction_id@
    && !(d.last()->Send_0.body is Request)
    && (d.last()->Send_0.body is Response ==> d.last()->Send_0.body->Response_0.id == my_id)
}
pub open spec fn reply(d: Seq<Ev>) -> Message { d.last()->Send_0 }
/// C10 / C12: the sender's record is marked "this node queried us" exactly when it was found under the sender's (id, address) -- and nothing else is marked
pub open spec fn query_marks_sender_only(d: Seq<Ev>) -> bool {
    d.len() >= 2 && d[0] is TableFind && (d.len() == 3) == d[0]->TableFind_1 && (d.len() == 3 ==> d[1] == Ev::Mark(d[0]->TableFind_0, false))
    && forall|i: int| 0 <= i < d.len() && #[trigger] d[i] is Mark ==> i == 1
}
pub open spec fn lists_per_want(v4: Seq<NodeHandle>, v6: Seq<NodeHandle>, want: Option<Want>, own_v4: bool) -> bool {
    let w = match want { Some(w) => w, None => if own_v4 { Want::V4 } else { Want::V6 } };
    v4.len() <= 8 && v6.len() <= 8
    && (v4.len() > 0 ==> w == Want::V4 || w == Want::Both)
    && (v6.len() > 0 ==> w == Want::V6 || w == Want::Both)
}
pub open spec fn nodes_per_want(r: Response, want: Option<Want>, own_v4: bool) -> bool {
    lists_per_want(r.nodes_v4@, r.nodes_v6@, want, own_v4)
    && (forall|i: int| 0 <= i < r.nodes_v4@.len() ==> sa_is_v4(#[trigger] r.nodes_v4@[i].addr))
    && (forall|i: int| 0 <= i < r.nodes_v6@.len() ==> !sa_is_v4(#[trigger] r.nodes_v6@[i].addr))
}

impl DhtHandler {
//@begin fn src/handler.rs impl:DhtHandler handle_incoming rules=R-deasync props=C05,C06,C07,C12,C01,C09,C10
    pub fn handle_incoming(
        &mut self,
        message: Message,
        addr: SocketAddr,
        Tracked(tr): Tracked<&mut Trace>,
    ) -> (res: Result<(), WorkerError>)
        requires old(self).hinv(),
        ensures final(self).hinv(), no_new_refresh(old(self).timer, final(self).timer), final(self).refresh == old(self).refresh,
            // ---- C05: a read-only node never replies; errors cause no traffic
            old(self).read_only && message.body is Request ==> final(tr).ev == old(tr).ev && res is Ok, // @C05.read_only_never_replies
            message.body is Error ==> final(tr).ev == old(tr).ev && res is Ok, // @C05.errors_cause_no_traffic
            // ---- C05 / C12: a query produces exactly [mark the sender if known, one reply to the source]; nothing is added to the table
            !old(self).read_only && message.body is Request ==> is_query_reply(delta(old(tr).ev, final(tr).ev), message, addr, old(self).this_node_id), // @C05.exactly_one_reply_to_source_echoing_tid
            message.body is Request ==> no_table_add(old(tr).ev, final(tr).ev) && no_yield(old(tr).ev, final(tr).ev), // @C12.query_never_adds_sender
            !old(self).read_only && message.body is Request ==> query_marks_sender_only(delta(old(tr).ev, final(tr).ev)), // @C10.a_received_query_is_recorded_on_its_known_sender_only @C12.a_query_marks_only_the_record_of_its_known_sender
            !old(self).read_only && message.body is Request ==> delta(old(tr).ev, final(tr).ev)[0] is TableFind && delta(old(tr).ev, final(tr).ev)[0]->TableFind_0 == (NodeHandle { id: req_sender(message.body->Request_0), addr }), // @C12.query_marks_only_its_known_sender @C10.a_received_query_is_recorded_on_its_known_sender_only
            // ---- C05: ping / find_node replies carry no token and no values
            !old(self).read_only && (message.body matches MessageBody::Request(Request::Ping(_))) ==> ({
                let r = reply(delta(old(tr).ev, final(tr).ev));
                r.body is Response && r.body->Response_0.token is None && r.body->Response_0.values@.len() == 0
                    && r.body->Response_0.nodes_v4@.len() == 0 && r.body->Response_0.nodes_v6@.len() == 0 }), // @C05.ping_reply_shape
            !old(self).read_only && (message.body matches MessageBody::Request(Request::FindNode(f))) ==> ({
                let r = reply(delta(old(tr).ev, final(tr).ev));
                r.body is Response && r.body->Response_0.token is None && r.body->Response_0.values@.len() == 0
                    && nodes_per_want(r.body->Response_0, message.body->Request_0->FindNode_0.want, sa_is_v4(old(self).socket.local_addr)) }), // @C05.find_node_reply_shape
            // ---- C05 / C06 / C07: get_peers reply
            !old(self).read_only && (message.body matches MessageBody::Request(Request::GetPeers(g))) ==> ({
                let r = reply(delta(old(tr).ev, final(tr).ev));
                r.body is Response && r.body->Response_0.token is Some && r.body->Response_0.token->0@.len() == 20
                    && nodes_per_want(r.body->Response_0, message.body->Request_0->GetPeers_0.want, sa_is_v4(old(self).socket.local_addr)) }), // @C05.get_peers_reply_shape @C01.get_peers_reply_shape
            !old(self).read_only && (message.body matches MessageBody::Request(Request::GetPeers(g))) ==> ({
                let r = reply(delta(old(tr).ev, final(tr).ev));
                r.body->Response_0.token->0@ == H(sa_ip(addr), final(self).token_store.curr_secret).token@
                    && exists|f1: u32, f2: u32| final(self).token_store.view() == #[trigger] step(old(self).token_store.view(), clock(), f1, f2) }), // @C06.token_handed_out_is_bound_to_requester_ip @C01.token_handed_out_is_bound_to_requester_ip
            !old(self).read_only && (message.body matches MessageBody::Request(Request::GetPeers(g))) ==> ({
                let r = reply(delta(old(tr).ev, final(tr).ev));
                let vals = r.body->Response_0.values@;
                let h = message.body->Request_0->GetPeers_0.info_hash;
                &&& final(self).active_stores.expires@ == E0(old(self).active_stores, clock())
                &&& forall|a: SocketAddr| #[trigger] vals.contains(a) <==> (e_has(final(self).active_stores.expires@, (h, a)) && sa_is_v4(a) == sa_is_v4(addr))
                &&& forall|i: int, j: int| 0 <= i < j < vals.len() ==> #[trigger] vals[i] != #[trigger] vals[j] }), // @C07.values_exactly_the_live_pairs_of_requester_family @C01.values_exactly_the_live_pairs_of_requester_family
            // ---- C06 / C07: announce_peer is stored only with a token issued to this IP; 203 / 202 otherwise
            !old(self).read_only && (message.body matches MessageBody::Request(Request::AnnouncePeer(a))) ==> ({
                let r = reply(delta(old(tr).ev, final(tr).ev));
                let a = message.body->Request_0->AnnouncePeer_0;
                let ts = final(self).token_store;
                let valid = a.token@.len() == 20 && (a.token@ == H(sa_ip(addr), ts.curr_secret).token@ || a.token@ == H(sa_ip(addr), ts.last_secret).token@);
                &&& (!valid ==> r.body is Error && r.body->Error_0.code == 203 && final(self).active_stores == old(self).active_stores)
                &&& (r.body is Response ==> valid)
                &&& (r.body is Error ==> r.body->Error_0.code == 203 || r.body->Error_0.code == 202) }), // @C06.stored_only_with_token_issued_to_this_ip @C05.announce_refused_with_203_iff_token_not_valid_for_this_ip @C01.stored_only_with_token_issued_to_this_ip
            !old(self).read_only && (message.body matches MessageBody::Request(Request::AnnouncePeer(a))) ==> ({
                let r = reply(delta(old(tr).ev, final(tr).ev));
                let a = message.body->Request_0->AnnouncePeer_0;
                let e0 = E0(old(self).active_stores, clock());
                // acknowledged  <==> the pair (info_hash, source ip : announced-or-source port) is now the youngest stored pair
                &&& (r.body is Response ==> final(self).active_stores.expires@.len() > 0
                        && ({ let k = ekey(final(self).active_stores.expires@.last());
                              k.0 == a.info_hash && sa_ip(k.1) == sa_ip(addr) && sa_is_v4(k.1) == sa_is_v4(addr)
                              && (a.port is Some ==> sa_port(k.1) == a.port->0) && (a.port is None ==> k.1 == addr)
                              && final(self).active_stores.expires@.drop_last() == e0.filter(not_key(k)) }))
                &&& (r.body is Error && r.body->Error_0.code == 202 ==> final(self).active_stores.expires@ == e0 && e0.len() >= 500)
                // a refused announce (203 or 202) stores nothing: only pairs that were successfully announced are ever handed out
                &&& (r.body is Error ==> forall|k: Key| #[trigger] e_has(final(self).active_stores.expires@, k) ==> e_has(old(self).active_stores.expires@, k)) }), // @C07.announce_stores_source_ip_with_port_or_refuses_202 @C05.announce_acknowledged_or_202_when_full @C01.announce_stores_source_ip_with_port_or_refuses_202
            // ---- C17: every reply fits the 1500-byte receive buffer of its peer, for every query that itself fit a 1500-byte buffer
            !old(self).read_only && blen(message) <= 1500 && (message.body matches MessageBody::Request(Request::Ping(_))) ==> blen(reply(delta(old(tr).ev, final(tr).ev))) <= 1500, // @C17.ping_reply_fits_1500_bytes
            !old(self).read_only && blen(message) <= 1500 && (message.body matches MessageBody::Request(Request::AnnouncePeer(_))) ==> blen(reply(delta(old(tr).ev, final(tr).ev))) <= 1500, // @C17.announce_reply_fits_1500_bytes
            // find_node / get_peers replies are longer than the query (node lists, token, values) and echo its transaction id:
            // (a) for ids of up to 32 bytes (and, get_peers, up to 800 bytes of compact peers = 100 IPv4 / 38 IPv6) they fit;
            !old(self).read_only && message.transaction_id@.len() <= 32 && (message.body matches MessageBody::Request(Request::FindNode(_))) ==> blen(reply(delta(old(tr).ev, final(tr).ev))) <= 1500, // @C17.find_node_reply_fits_1500_bytes_for_ids_up_to_32_bytes
            !old(self).read_only && message.transaction_id@.len() <= 32 && (message.body matches MessageBody::Request(Request::GetPeers(_))) && values_len(reply(delta(old(tr).ev, final(tr).ev)).body->Response_0.values@) <= 800 ==> blen(reply(delta(old(tr).ev, final(tr).ev))) <= 1500, // @C17.get_peers_reply_fits_1500_bytes_for_ids_up_to_32_bytes_and_100_ipv4_or_38_ipv6_peers
            // (b) the unconditional statements of the property (recorded known findings on the current tree: the id is echoed whole, `values` is not capped)
            !old(self).read_only && blen(message) <= 1500 && (message.body matches MessageBody::Request(Request::FindNode(_))) ==> blen(reply(delta(old(tr).ev, final(tr).ev))) <= 1500, // @C17.find_node_reply_fits_1500_bytes
            !old(self).read_only && blen(message) <= 1500 && (message.body matches MessageBody::Request(Request::GetPeers(_))) ==> blen(reply(delta(old(tr).ev, final(tr).ev))) <= 1500, // @C17.get_peers_reply_fits_1500_bytes
            // ---- C12: a response with a transaction id of the wrong length changes nothing
            message.body is Response && message.transaction_id@.len() != 8 ==> res is Err && final(tr).ev == old(tr).ev, // @C12.wrong_length_tid_rejected
            message.body is Response && message.transaction_id@.len() == 8 ==> ({
                forall|t: TransactionID| #[trigger] t.bytes@ == message.transaction_id@
                    && !old(self).lookups@.contains_key(ActionID { action_id: tid_value(t) >> 24 }) && old(self).refresh.id_generator.action_id >> 24 != tid_value(t) >> 24
                    ==> res is Err && final(tr).ev == old(tr).ev }), // @C12.unknown_action_prefix_rejected
            // ---- C05: responses are never answered: whatever a response triggers, it is queries only
            message.body is Response ==> sends_only_requests(old(tr).ev, final(tr).ev), // @C05.responses_never_answered
    {
        proof { reveal_strlit("received an invalid token"); reveal_strlit("announce storage is full"); } // @C17.error_texts
        // Do not process requests if we are read only
        // TODO: Add read only flags to messages we send it we are read only!
        // Also, check for read only flags on responses we get before adding nodes
        // to our RoutingTable.
        if self.read_only && matches!(message.body, MessageBody::Request(_)) {
            return Ok(());
        }

        // Process the given message
        match message.body {
            MessageBody::Request(Request::Ping(p)) => {
                let node = NodeHandle::new(p.id, addr);

                // Node requested from us, mark it in the Routingtable
                if let Some(n) = self.routing_table.lock().unwrap().find_node_mut(&node, Tracked(tr)) {
                    n.remote_request(Tracked(tr))
                }

                let ping_rsp = Response {
                    id: self.this_node_id,
                    values: vec![],
                    nodes_v4: vec![],
                    nodes_v6: vec![],
                    token: None,
                };
                let ping_msg = Message {
                    transaction_id: message.transaction_id,
                    body: MessageBody::Response(ping_rsp),
                };

                self.socket.send(&ping_msg, addr, Tracked(tr))?
            }
            MessageBody::Request(Request::FindNode(f)) => {
                let node = NodeHandle::new(f.id, addr);

                // Node requested from us, mark it in the Routingtable
                if let Some(n) = self.routing_table.lock().unwrap().find_node_mut(&node, Tracked(tr)) {
                    n.remote_request(Tracked(tr))
                }

                let (nodes_v4, nodes_v6) = self.find_closest_nodes(f.target, f.want)?;
                let ghost enumerated = (nodes_v4@, nodes_v6@);

                let find_node_rsp = Response {
                    id: self.this_node_id,
                    values: vec![],
                    nodes_v4,
                    nodes_v6,
                    token: None,
                };
                assert(find_node_rsp.nodes_v4@ == enumerated.0 && find_node_rsp.nodes_v6@ == enumerated.1); // @C09.find_node_reply_lists_exactly_the_enumeration_result
                let find_node_msg = Message {
                    transaction_id: message.transaction_id,
                    body: MessageBody::Response(find_node_rsp),
                };

                self.socket.send(&find_node_msg, addr, Tracked(tr))?
            }
            MessageBody::Request(Request::GetPeers(g)) => {
                let node = NodeHandle::new(g.id, addr);

                // Node requested from us, mark it in the Routingtable
                if let Some(n) = self.routing_table.lock().unwrap().find_node_mut(&node, Tracked(tr)) {
                    n.remote_request(Tracked(tr))
                }

                // TODO: Check what the maximum number of values we can give without overflowing a udp packet
                // Also, if we arent going to give all of the contacts, we may want to shuffle which ones we give
                let values: Vec<_> = vx_filter_collect(self
                    .active_stores
                    .find_items(&g.info_hash)
                    , |value_addr: &SocketAddr| -> (keep: bool) ensures keep == (sa_is_v4(addr) == sa_is_v4(*value_addr)) { {
                        // According to the spec (BEP32), `values` should contain only addresses of the
                        // same family as the address the request came from. The `want` field affects only
                        // the `nodes` and `nodes6` fields, not the `values` field.
                        match (addr, value_addr) {
                            (SocketAddr::V4(_), SocketAddr::V4(_)) => true,
                            (SocketAddr::V6(_), SocketAddr::V6(_)) => true,
                            (SocketAddr::V4(_), SocketAddr::V6(_)) => false,
                            (SocketAddr::V6(_), SocketAddr::V4(_)) => false,
                        }
                    } })
                    ;
                proof {
                    let found = items_of(self.active_stores, g.info_hash);
                    let pr = choose|pr: spec_fn(SocketAddr) -> bool| #[trigger] filtered(found, values@, pr)
                        && (forall|i: int| 0 <= i < found.len() ==> pr(#[trigger] found[i]) == (sa_is_v4(addr) == sa_is_v4(found[i])));
                    lemma_filter_ext(found, pr, same_family(addr));
                    lemma_filter_members(found, same_family(addr));
                }

                // Grab the closest nodes
                let (nodes_v4, nodes_v6) = self.find_closest_nodes(g.info_hash, g.want)?;
                let ghost enumerated = (nodes_v4@, nodes_v6@);
                let token = self.token_store.checkout(addr.ip());

                let get_peers_rsp = Response {
                    id: self.this_node_id,
                    values,
                    nodes_v4,
                    nodes_v6,
                    token: Some(token.as_ref().to_vec()),
                };
                assert(get_peers_rsp.nodes_v4@ == enumerated.0 && get_peers_rsp.nodes_v6@ == enumerated.1); // @C09.get_peers_reply_lists_exactly_the_enumeration_result
                let get_peers_msg = Message {
                    transaction_id: message.transaction_id,
                    body: MessageBody::Response(get_peers_rsp),
                };

                self.socket.send(&get_peers_msg, addr, Tracked(tr))?
            }
            MessageBody::Request(Request::AnnouncePeer(a)) => {
                let node = NodeHandle::new(a.id, addr);

                // Node requested from us, mark it in the Routingtable
                if let Some(n) = self.routing_table.lock().unwrap().find_node_mut(&node, Tracked(tr)) {
                    n.remote_request(Tracked(tr))
                }

                // Validate the token
                let is_valid = match Token::new(&a.token) {
                    Ok(t) => self.token_store.checkin(addr.ip(), t),
                    Err(_) => false,
                };

                // Create a socket address based on the implied/explicit port number
                let connect_addr = match a.port {
                    None => addr,
                    Some(port) => {
                        let mut addr = addr;
                        addr.set_port(port);
                        addr
                    }
                };

                // Resolve type of response we are going to send
                let response_msg = if !is_valid {
                    // Node gave us an invalid token
                    Message {
                        transaction_id: message.transaction_id,
                        body: MessageBody::Error(Error {
                            code: error_code::PROTOCOL_ERROR,
                            message: "received an invalid token".to_owned(),
                        }),
                    }
                } else if self.active_stores.add_item(a.info_hash, connect_addr) {
                    // Node successfully stored the value with us, send an announce response
                    Message {
                        transaction_id: message.transaction_id,
                        body: MessageBody::Response(Response {
                            id: self.this_node_id,
                            values: vec![],
                            nodes_v4: vec![],
                            nodes_v6: vec![],
                            token: None,
                        }),
                    }
                } else {
                    // Node unsuccessfully stored the value with us, send them an error message
                    // TODO: Spec doesnt actually say what error message to send, or even if we should send one...
                    proof { lemma_e_filter(old(self).active_stores.expires@, live_at(clock())); }
                    Message {
                        transaction_id: message.transaction_id,
                        body: MessageBody::Error(Error {
                            code: error_code::SERVER_ERROR,
                            message: "announce storage is full".to_owned(),
                        }),
                    }
                };

                self.socket.send(&response_msg, addr, Tracked(tr))?
            }
            MessageBody::Response(rsp) => {
                let trans_id = TransactionID::from_bytes(&message.transaction_id)
                    .ok_or(WorkerError::InvalidTransactionId)?;
                proof {
                    assert forall|t: TransactionID| #[trigger] t.bytes@ == message.transaction_id@ implies t == trans_id by { assert(t.bytes =~= trans_id.bytes); }
                }
                self.handle_incoming_response(trans_id, addr, rsp, Tracked(tr))?;
            }
            MessageBody::Error(_) => (),
        }

        Ok(())
    }
//@end

//@begin fn src/handler.rs impl:DhtHandler handle_incoming_response rules=R-deasync props=C05,C12,C04,C11,C02
    pub fn handle_incoming_response(
        &mut self,
        trans_id: TransactionID,
        addr: SocketAddr,
        rsp: Response,
        Tracked(tr): Tracked<&mut Trace>,
    ) -> (res: Result<(), WorkerError>)
        requires old(self).hinv(),
        ensures final(self).hinv(), no_new_refresh(old(self).timer, final(self).timer), final(self).refresh == old(self).refresh,
            final(self).active_stores == old(self).active_stores, final(self).token_store == old(self).token_store,
            extends(old(tr).ev, final(tr).ev),
            // unknown action prefix: rejected, nothing happens (neither contacts nor any search result)
            !old(self).lookups@.contains_key(ActionID { action_id: tid_value(trans_id) >> 24 }) && old(self).refresh.id_generator.action_id >> 24 != tid_value(trans_id) >> 24
                ==> res is Err && final(tr).ev == old(tr).ev, // @C12.unknown_action_prefix_rejected
            // accepted response: the responder is offered as good, the nodes it names (own family) as hearsay; then the search reacts
            res is Ok ==> delta(old(tr).ev, final(tr).ev).len() >= 1
                && delta(old(tr).ev, final(tr).ev)[0] == Ev::TableAdd(NodeHandle { id: rsp.id, addr }, (if sa_is_v4(old(self).socket.local_addr) { rsp.nodes_v4@ } else { rsp.nodes_v6@ })), // @C12.responder_good_named_nodes_hearsay @C11.an_accepted_answer_re_admits_the_responder_as_good
            sends_only_requests(old(tr).ev, final(tr).ev), // @C05.responses_never_answered
    {
        broadcast use vstd::std_specs::hash::group_hash_axioms, actionid_key_model;
        let ghost ev0 = tr.ev;
        let node = Node::as_good(rsp.id, addr);

        let nodes = match self.socket.ip_version() {
            IpVersion::V4 => &rsp.nodes_v4,
            IpVersion::V6 => &rsp.nodes_v6,
        };

        if let Some(lookup) = self.lookups.get_mut(&trans_id.action_id()) {
            self.routing_table
                .lock()
                .unwrap()
                .add_nodes(node.clone(), nodes, Tracked(tr));
            let ghost ev1 = tr.ev;
            assert(node.handle == NodeHandle { id: rsp.id, addr }); // @C03.search_is_told_the_responders_id_and_source_address @C02.search_is_told_the_responders_id_and_source_address

            match lookup
                .recv_response(node, &trans_id, rsp, &self.socket, &mut self.timer, Tracked(tr))
                
            {
                ActionStatus::Ongoing => (),
                ActionStatus::Completed => self.handle_lookup_completed(trans_id, Tracked(tr), Ghost(Some(*lookup))),
            }
        } else if self.refresh.action_id() == trans_id.action_id() {
            self.routing_table.lock().unwrap().add_nodes(node, nodes, Tracked(tr));
        } else {
            return Err(WorkerError::UnsolicitedResponse);
        }

        Ok(())
    }
//@end

//@begin fn src/handler.rs impl:DhtHandler handle_lookup_completed rules=R-deasync props=C05,C12,C04
    pub fn handle_lookup_completed(&mut self, trans_id: TransactionID, Tracked(tr): Tracked<&mut Trace>, Ghost(reported_by): Ghost<Option<TableLookup>>)
        // C04: a search is closed because its end-game timeout fired (None) or because it reported Completed (Some(the search))
        requires reported_by is Some ==> status_of(reported_by->0) == ActionStatus::Completed, // @C04.a_search_is_closed_only_when_it_reports_completed
        ensures final(self).active_stores == old(self).active_stores, final(self).token_store == old(self).token_store,
            final(self).socket == old(self).socket, final(self).this_node_id == old(self).this_node_id, final(self).read_only == old(self).read_only,
            final(self).refresh == old(self).refresh, final(self).timer == old(self).timer,
            only_requests_and_yields(old(tr).ev, final(tr).ev), // @C05.search_completion_sends_only_queries
            // C04: the finished search is dropped (dropping it closes its stream); every other search stays
            !final(self).lookups@.contains_key(aid_of(trans_id)), // @C04.a_finished_search_is_dropped
            forall|a: ActionID| a != aid_of(trans_id) ==> (#[trigger] final(self).lookups@.contains_key(a) == old(self).lookups@.contains_key(a)), // @C04.finishing_a_search_closes_no_other_search
    {
        broadcast use vstd::std_specs::hash::group_hash_axioms, actionid_key_model;
        let mut lookup = if let Some(lookup) = self.lookups.remove(&trans_id.action_id()) {
            lookup
        } else {
            return;
        };

        lookup.recv_finished(self.announce_port, &self.socket, Tracked(tr))
    }
//@end

//@begin fn src/handler.rs impl:DhtHandler find_closest_nodes props=C05,C09,C17
    pub fn find_closest_nodes(
        &self,
        target: InfoHash,
        want: Option<Want>,
    ) -> (res: Result<(Vec<NodeHandle>, Vec<NodeHandle>), WorkerError>)
        ensures res is Ok,
            lists_per_want(res->Ok_0.0@, res->Ok_0.1@, want, sa_is_v4(self.socket.local_addr)), // @C09.at_most_8_per_family_selected_by_want @C17.at_most_8_nodes_per_family
            forall|i: int| 0 <= i < res->Ok_0.0@.len() ==> sa_is_v4(#[trigger] res->Ok_0.0@[i].addr), // @C09.nodes_list_holds_only_ipv4
            forall|i: int| 0 <= i < res->Ok_0.1@.len() ==> !sa_is_v4(#[trigger] res->Ok_0.1@[i].addr), // @C09.nodes6_list_holds_only_ipv6
    {
        let want = match want {
            Some(want) => want,
            None => match self.socket.ip_version() {
                IpVersion::V4 => Want::V4,
                IpVersion::V6 => Want::V6,
            },
        };

        let table = self.routing_table.lock().unwrap();

        let nodes_v4 = if matches!(want, Want::V4 | Want::Both) {
            table
                .closest_nodes(target)
                .filter(|node: &&Node| -> (b: bool) ensures b == sa_is_v4(node.handle.addr) { node.addr().is_ipv4() })
                .take(8)
                .map(|node: &Node| -> (h: NodeHandle) ensures h == node.handle { *node.handle() })
                .collect()
        } else {
            vec![]
        };

        let nodes_v6 = if matches!(want, Want::V6 | Want::Both) {
            table
                .closest_nodes(target)
                .filter(|node: &&Node| -> (b: bool) ensures b == !sa_is_v4(node.handle.addr) { node.addr().is_ipv6() })
                .take(8)
                .map(|node: &Node| -> (h: NodeHandle) ensures h == node.handle { *node.handle() })
                .collect()
        } else {
            vec![]
        };

        Ok((nodes_v4, nodes_v6))
    }
//@end
}

/// the searches started so far: (target, announce) of every LookupStart event, in order
pub open spec fn starts(ev: Seq<Ev>) -> Seq<(InfoHash, bool)>
    decreases ev.len()
{
    if ev.len() == 0 { Seq::empty() } else {
        let p = starts(ev.drop_last());
        match ev.last() { Ev::LookupStart(h, a) => p.push((h, a)), _ => p }
    }
}
/// between o and f nothing but queries was sent (searches may have been started)
pub open spec fn no_replies(o: Seq<Ev>, f: Seq<Ev>) -> bool {
    extends(o, f) && forall|i: int| o.len() <= i < f.len() ==> match #[trigger] f[i] { Ev::Send(m, _) => m.body is Request, Ev::TableAdd(_, _) => false, _ => true }
}
pub proof fn lemma_starts_push(o: Seq<Ev>, e: Ev)
    ensures starts(o.push(e)) == (match e { Ev::LookupStart(h, a) => starts(o).push((h, a)), _ => starts(o) })
{
    assert(o.push(e).drop_last() =~= o);
}
pub proof fn lemma_starts_quiet(o: Seq<Ev>, f: Seq<Ev>)
    requires only_requests_and_yields(o, f)
    ensures starts(f) == starts(o)
    decreases f.len() - o.len()
{
    if f.len() == o.len() { assert(f =~= o); } else {
        let d = f.drop_last();
        assert(only_requests_and_yields(o, d));
        lemma_starts_quiet(o, d);
    }
}
pub proof fn lemma_no_replies_trans(a: Seq<Ev>, b: Seq<Ev>, c: Seq<Ev>)
    requires no_replies(a, b), no_replies(b, c) || only_requests_and_yields(b, c)
    ensures no_replies(a, c)
{}
pub proof fn lemma_no_replies_start(o: Seq<Ev>, ls: Ev, f: Seq<Ev>)
    requires ls is LookupStart, only_requests_and_yields(o.push(ls), f)
    ensures no_replies(o, f)
{
    assert forall|i: int| o.len() <= i < f.len() implies (match #[trigger] f[i] { Ev::Send(m, _) => m.body is Request, Ev::TableAdd(_, _) => false, _ => true }) by {
        if i == o.len() { assert(f[i] == o.push(ls)[i]); }
    }
    assert(extends(o, f)) by { assert forall|i: int| 0 <= i < o.len() implies #[trigger] f[i] == o[i] by { assert(o.push(ls)[i] == o[i]); } }
}

impl DhtHandler {
    /// handler invariant between events: store invariant + single refresh chain
    pub open spec fn hinv(&self) -> bool {
        self.active_stores.wf() && self.refresh.curr_refresh_bucket <= 160 && chain_ok(self.refresh, self.timer)
    }
    pub open spec fn one_refresh_pending(&self) -> bool {
        self.refresh.next_refresh is Some && self.timer.pending@.contains_key(self.refresh.next_refresh->0)
            && self.timer.pending@[self.refresh.next_refresh->0] is TableRefresh
            && self.refresh.next_refresh->0.deadline.t as int == tclock() + 6_000_000_000
    }
    /// timeouts other than the refresh round are untouched
    pub open spec fn frame_non_refresh(&self, o: DhtHandler) -> bool {
        forall|k: Timeout| !(o.timer.pending@.contains_key(k) && o.timer.pending@[k] is TableRefresh) && k != self.refresh.next_refresh->0
            ==> (self.timer.pending@.contains_key(k) == o.timer.pending@.contains_key(k) && (o.timer.pending@.contains_key(k) ==> self.timer.pending@[k] == o.timer.pending@[k]))
    }

    /// the bootstrap task's published state (a tokio watch channel: its value is arbitrary at every read)
    pub open spec fn spec_bootstrapped(&self) -> bool { watch::val(self.bootstrap.state_rx) == bootstrap::State::Bootstrapped }
//@begin fn src/handler.rs impl:DhtHandler is_bootstrapped nopub=1 props=C16,C18,C11,C04
    fn is_bootstrapped(&self) -> (r: bool)
        ensures r == self.spec_bootstrapped(), // @C16.bootstrapped_means_state_is_bootstrapped @C18.bootstrapped_means_state_is_bootstrapped @C11.bootstrapped_means_state_is_bootstrapped @C04.bootstrapped_means_state_is_bootstrapped
    {
        *self.bootstrap.state_rx.borrow() == bootstrap::State::Bootstrapped
    }
//@end

//@begin fn src/handler.rs impl:DhtHandler handle_start_lookup rules=R-deasync props=C16,C04
    pub fn handle_start_lookup(&mut self, lookup: StartLookup, Tracked(tr): Tracked<&mut Trace>)
        requires old(self).hinv(),
        ensures final(self).hinv(), final(self).refresh == old(self).refresh, no_new_refresh(old(self).timer, final(self).timer),
            final(self).initial_bootstrap_done == old(self).initial_bootstrap_done,
            // C16: before the initial bootstrap has finished the search is queued, nothing else happens
            !old(self).initial_bootstrap_done && !old(self).spec_bootstrapped() ==> final(tr).ev == old(tr).ev && final(self).pending_lookups@ == old(self).pending_lookups@.push(lookup), // @C16.queued_before_initial_bootstrap
            // afterwards it is started at once
            old(self).initial_bootstrap_done || old(self).spec_bootstrapped() ==> starts(final(tr).ev) == starts(old(tr).ev).push((lookup.info_hash, lookup.announce))
                && final(self).pending_lookups@ == old(self).pending_lookups@, // @C16.started_immediately_after_bootstrap @C04.a_search_is_never_parked_after_the_initial_bootstrap
            no_replies(old(tr).ev, final(tr).ev),
    {
        // Queue the lookup if the initial bootstrap has not finished yet, it is started once it does.
        if !self.initial_bootstrap_done && !self.is_bootstrapped() {
            self.pending_lookups.push(lookup);
            return;
        }

        self.start_lookup(lookup, Tracked(tr))
    }
//@end

//@begin fn src/handler.rs impl:DhtHandler start_lookup rules=R-deasync props=C16,C04
    pub fn start_lookup(&mut self, lookup: StartLookup, Tracked(tr): Tracked<&mut Trace>)
        requires old(self).hinv(),
        ensures final(self).hinv(), final(self).refresh == old(self).refresh, no_new_refresh(old(self).timer, final(self).timer),
            final(self).initial_bootstrap_done == old(self).initial_bootstrap_done, final(self).pending_lookups == old(self).pending_lookups,
            final(self).bootstrap_txs == old(self).bootstrap_txs, final(self).next_bootstrap_txs_id == old(self).next_bootstrap_txs_id,
            starts(final(tr).ev) == starts(old(tr).ev).push((lookup.info_hash, lookup.announce)), // @C16.search_is_started_with_the_requested_target
            no_replies(old(tr).ev, final(tr).ev),
    {
        broadcast use vstd::std_specs::hash::group_hash_axioms, actionid_key_model;
        let ghost ev0 = tr.ev;
        let ghost ls = Ev::LookupStart(lookup.info_hash, lookup.announce);
        let mid_generator = self.aid_generator.generate();
        let action_id = mid_generator.action_id();

        let mut lookup = TableLookup::new(
            lookup.info_hash,
            lookup.announce,
            lookup.tx,
            mid_generator,
            self.routing_table.clone(),
            &self.socket,
            &mut self.timer,
            Tracked(tr),
        )
        ;
        let ghost ev1 = tr.ev;

        if lookup.completed() {
            lookup.recv_finished(self.announce_port, &self.socket, Tracked(tr));
        } else {
            self.lookups.insert(action_id, lookup);
        }
        proof {
            lemma_starts_push(ev0, ls);
            lemma_starts_quiet(ev0.push(ls), ev1);
            lemma_starts_quiet(ev1, tr.ev);
            lemma_no_replies_start(ev0, ls, ev1);
            lemma_no_replies_trans(ev0, ev1, tr.ev);
        }
    }
//@end

//@begin fn src/handler.rs impl:DhtHandler handle_check_table_refresh rules=R-deasync props=C18,C11
    pub fn handle_check_table_refresh(&mut self, Tracked(tr): Tracked<&mut Trace>)
        requires old(self).hinv(),
        ensures final(self).hinv(), final(self).frame_non_refresh(*old(self)),
            final(self).initial_bootstrap_done == old(self).initial_bootstrap_done, final(self).pending_lookups == old(self).pending_lookups,
            final(self).bootstrap_txs == old(self).bootstrap_txs, final(self).next_bootstrap_txs_id == old(self).next_bootstrap_txs_id,
            final(self).one_refresh_pending(), // @C18.next_round_scheduled_6s_ahead @C11.refresh_reschedules_itself_every_6_s
            only_requests_and_yields(old(tr).ev, final(tr).ev), final(tr).ev.len() <= old(tr).ev.len() + 12, // @C18.round_is_at_most_4_queries
    {
        self.refresh
            .continue_refresh(&self.socket, &mut self.timer, Tracked(tr))
            
    }
//@end

//@begin fn src/handler.rs impl:DhtHandler handle_check_bootstrap props=C15
    pub fn handle_check_bootstrap(&mut self, tx: oneshot::Sender<()>)
        ensures
            old(self).hinv() ==> final(self).hinv(),
            // a caller asking after completion is told at once and nothing is stored
            old(self).spec_bootstrapped() ==> final(self).bootstrap_txs@ == old(self).bootstrap_txs@ && final(self).next_bootstrap_txs_id == old(self).next_bootstrap_txs_id, // @C15.asked_after_completion_told_at_once
            // a caller asking earlier is added to the waiters under a key no waiting caller holds: nobody waiting is dropped or replaced
            !old(self).spec_bootstrapped() && waiters_ok(*old(self)) ==> waiters_ok(*final(self))
                && !old(self).bootstrap_txs@.contains_key(old(self).next_bootstrap_txs_id)
                && final(self).bootstrap_txs@ == old(self).bootstrap_txs@.insert(old(self).next_bootstrap_txs_id, tx), // @C15.a_new_waiter_never_replaces_a_waiting_one
    {
        broadcast use vstd::std_specs::hash::group_hash_axioms;
        if self.is_bootstrapped() {
            tx.send(()).unwrap_or(())
        } else {
            let id = self.next_bootstrap_txs_id;
            proof {
                // ASSUMPTION A-waiters: fewer than 2^64 calls of bootstrapped() before the bootstrap completes
                assume(self.next_bootstrap_txs_id < u64::MAX);
            }
            self.next_bootstrap_txs_id += 1;
            self.bootstrap_txs.insert(id, tx);
        }
    }
//@end

//@begin fn src/handler.rs impl:DhtHandler handle_bootstrap_success rules=R-deasync props=C18,C16,C11
    pub fn handle_bootstrap_success(&mut self, Tracked(tr): Tracked<&mut Trace>)
        requires old(self).hinv(),
        ensures final(self).hinv(), // @C18.single_refresh_chain
            final(self).one_refresh_pending(), // @C18.one_round_per_bootstrap_completion @C11.refresh_starts_at_bootstrap_completion
            final(self).bootstrap_txs@.len() == 0 && waiters_ok(*final(self)), // @C15.every_waiter_is_handed_to_the_notifier
            // C16: every search queued before the initial bootstrap finished is started now, in order; none stays queued
            final(self).initial_bootstrap_done && final(self).pending_lookups@.len() == 0, // @C16.queue_emptied_at_bootstrap_completion
            starts(final(tr).ev) == starts(old(tr).ev) + Seq::new(old(self).pending_lookups@.len(), |i: int| (old(self).pending_lookups@[i].info_hash, old(self).pending_lookups@[i].announce)), // @C16.queued_searches_started_at_bootstrap_completion
            no_replies(old(tr).ev, final(tr).ev),
    {
        broadcast use vec_default_is_empty;
        let ghost ev0 = tr.ev;
        let ghost q = self.pending_lookups@;
        // Send notification that the bootstrap has completed.
        vx_notify_all(&mut self.bootstrap_txs);

        // Start the lookups that were requested before the initial bootstrap has finished.
        self.initial_bootstrap_done = true;
        let pending_lookups = std::mem::take(&mut self.pending_lookups);
        for lookup in it: pending_lookups
            invariant self.hinv(), self.initial_bootstrap_done, self.pending_lookups@.len() == 0,
                self.bootstrap_txs@.len() == 0,
                it.snapshot@.remaining() == q, 0 <= it.index@ <= q.len(),
                starts(tr.ev) == starts(ev0) + Seq::new(it.index@ as nat, |i: int| (q[i].info_hash, q[i].announce)),
                no_replies(ev0, tr.ev),
        {
            let ghost k = it.index@;
            let ghost evb = tr.ev;
            self.start_lookup(lookup, Tracked(tr));
            proof {
                assert(lookup == q[k]);
                lemma_no_replies_trans(ev0, evb, tr.ev);
                assert(Seq::new((k + 1) as nat, |i: int| (q[i].info_hash, q[i].announce)) =~= Seq::new(k as nat, |i: int| (q[i].info_hash, q[i].announce)).push((q[k].info_hash, q[k].announce)));
            }
        }
        proof { assert(Seq::new(q.len(), |i: int| (q[i].info_hash, q[i].announce)) =~= Seq::new(old(self).pending_lookups@.len(), |i: int| (old(self).pending_lookups@[i].info_hash, old(self).pending_lookups@[i].announce))); }

        // Start the refresh action.
        let ghost ev1 = tr.ev;
        self.handle_check_table_refresh(Tracked(tr));
        proof { lemma_starts_quiet(ev1, tr.ev); lemma_no_replies_trans(ev0, ev1, tr.ev); }
    }
//@end

//@begin fn src/handler.rs impl:DhtHandler handle_timeout rules=R-deasync props=C18,C05,C11
    pub fn handle_timeout(&mut self, token: ScheduledTaskCheck, Tracked(tr): Tracked<&mut Trace>)
        requires old(self).hinv(),
        ensures final(self).hinv(), // @C18.single_refresh_chain
            only_requests_and_yields(old(tr).ev, final(tr).ev), // @C05.timeouts_send_only_queries
            !(token is TableRefresh) ==> no_new_refresh(old(self).timer, final(self).timer), // @C18.only_a_refresh_timeout_starts_a_round
            token is TableRefresh ==> final(self).one_refresh_pending(), // @C11.every_refresh_timeout_runs_a_round_and_schedules_the_next
    {
        match token {
            ScheduledTaskCheck::TableRefresh => {
                self.handle_check_table_refresh(Tracked(tr));
            }
            ScheduledTaskCheck::LookupTimeout(trans_id) => {
                self.handle_check_lookup_timeout(trans_id, Tracked(tr));
            }
            ScheduledTaskCheck::LookupEndGame(trans_id) => {
                self.handle_check_lookup_endgame(trans_id, Tracked(tr));
            }
        }
    }
//@end

//@begin fn src/handler.rs impl:DhtHandler handle_check_lookup_timeout rules=R-deasync props=C18,C05,C04
    pub fn handle_check_lookup_timeout(&mut self, trans_id: TransactionID, Tracked(tr): Tracked<&mut Trace>)
        requires old(self).hinv(),
        ensures final(self).hinv(), final(self).refresh == old(self).refresh,
            no_new_refresh(old(self).timer, final(self).timer),
            only_requests_and_yields(old(tr).ev, final(tr).ev),
            forall|a: ActionID| a != aid_of(trans_id) ==> (#[trigger] final(self).lookups@.contains_key(a) == old(self).lookups@.contains_key(a)), // @C04.a_query_timeout_closes_no_other_search
    {
        broadcast use vstd::std_specs::hash::group_hash_axioms, actionid_key_model;
        let ghost pre = self.lookups@;
        let lookup = if let Some(lookup) = self.lookups.get_mut(&trans_id.action_id()) {
            lookup
        } else {
            return;
        };

        let lookup_status = lookup
            .recv_timeout(&trans_id, &self.socket, &mut self.timer, Tracked(tr))
            ;

        let ghost after = *lookup;
        proof { lemma_get_mut_dom(pre, self.lookups@, aid_of(trans_id)); }
        match lookup_status {
            ActionStatus::Ongoing => (),
            ActionStatus::Completed => self.handle_lookup_completed(trans_id, Tracked(tr), Ghost(Some(after))),
        }
    }
//@end

//@begin fn src/handler.rs impl:DhtHandler handle_check_lookup_endgame rules=R-deasync props=C18,C05,C04
    pub fn handle_check_lookup_endgame(&mut self, trans_id: TransactionID, Tracked(tr): Tracked<&mut Trace>)
        requires old(self).hinv(),
        ensures final(self).hinv(), final(self).refresh == old(self).refresh, final(self).timer == old(self).timer,
            only_requests_and_yields(old(tr).ev, final(tr).ev),
            !final(self).lookups@.contains_key(aid_of(trans_id)), // @C04.the_end_game_timeout_closes_the_search
            forall|a: ActionID| a != aid_of(trans_id) ==> (#[trigger] final(self).lookups@.contains_key(a) == old(self).lookups@.contains_key(a)), // @C04.finishing_a_search_closes_no_other_search
    {
        self.handle_lookup_completed(trans_id, Tracked(tr), Ghost(None))
    }
//@end
}
