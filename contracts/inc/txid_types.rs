// TRUSTED: std
pub assume_specification<'a, T: Copy> [Option::<&'a T>::copied] (o: Option<&'a T>) -> (r: Option<T>)
    ensures r == (match o { Some(x) => Some(*x), None => None::<T> });
// ================= transaction.rs: id types (generators are proved in unit txid) =================
//@begin const src/transaction.rs - TRANSACTION_ID_BYTES
pub const TRANSACTION_ID_BYTES: usize = ACTION_ID_BYTES + MESSAGE_ID_BYTES;
//@end
//@begin const src/transaction.rs - ACTION_ID_BYTES
pub const ACTION_ID_BYTES: usize = 5;
//@end
//@begin const src/transaction.rs - MESSAGE_ID_BYTES
pub const MESSAGE_ID_BYTES: usize = 3;
//@end
//@begin const src/transaction.rs - ACTION_ID_SHIFT
pub const ACTION_ID_SHIFT: usize = ACTION_ID_BYTES * 8;
//@end
//@begin const src/transaction.rs - MAX_ACTION_ID
pub const MAX_ACTION_ID: u64 = 1 << ACTION_ID_SHIFT;
//@end
//@begin const src/transaction.rs - MESSAGE_ID_SHIFT
pub const MESSAGE_ID_SHIFT: usize = MESSAGE_ID_BYTES * 8;
//@end
//@begin const src/transaction.rs - MAX_MESSAGE_ID
pub const MAX_MESSAGE_ID: u64 = 1 << MESSAGE_ID_SHIFT;
//@end
//@begin const src/transaction.rs - ACTION_ID_PREALLOC_LEN
pub const ACTION_ID_PREALLOC_LEN: usize = 2048;
//@end
//@begin const src/transaction.rs - MESSAGE_ID_PREALLOC_LEN
pub const MESSAGE_ID_PREALLOC_LEN: usize = 2048;
//@end
pub proof fn lemma_consts()
    ensures MAX_MESSAGE_ID == 0x1000000, MAX_ACTION_ID == 0x10000000000, MESSAGE_ID_SHIFT == 24, ACTION_ID_SHIFT == 40, TRANSACTION_ID_BYTES == 8
{
    assert(1u64 << 24 == 0x1000000) by (bit_vector);
    assert(1u64 << 40 == 0x10000000000) by (bit_vector);
}

//@begin type src/transaction.rs - struct TransactionID
#[derive(Structural, Copy, Clone, PartialEq, Eq, Hash)]
pub struct TransactionID {
    pub bytes: [u8; TRANSACTION_ID_BYTES],
}
//@end
//@begin type src/transaction.rs - struct ActionID
#[derive(Structural, Copy, Clone, PartialEq, Eq, Hash)]
pub struct ActionID {
    pub action_id: u64,
}
//@end
/// the u64 whose 8 big-endian bytes are the id
pub uninterp spec fn tid_value(t: TransactionID) -> u64;
impl TransactionID {
    // proved-by: kx/tid_bytes (the id is the 8 big-endian bytes of trans_id; from_bytes/as_ref round-trip)
    #[verifier::external_body]
    pub fn new(trans_id: u64) -> (r: TransactionID) ensures tid_value(r) == trans_id { unimplemented!() }
    // proved-by: kx/tid_bytes, kx/tid_action_prefix (action id = value >> 24 = the top 5 bytes)
    #[verifier::external_body]
    pub fn action_id(&self) -> (r: ActionID) ensures r.action_id == tid_value(*self) >> 24 { unimplemented!() }
    // proved-by: kx/tid_from_bytes_len, kx/tid_bytes (accepts exactly 8 bytes and keeps them)
    #[verifier::external_body]
    pub fn from_bytes(bytes: &[u8]) -> (r: Option<Self>) ensures r is Some <==> bytes@.len() == 8, r is Some ==> r->0.bytes@ == bytes@ { unimplemented!() }
}
impl AsRef<[u8]> for TransactionID {
//@begin fn src/transaction.rs impl:AsRef<[u8]>@for@TransactionID as_ref
    fn as_ref(&self) -> (r: &[u8]) ensures r@ == self.bytes@ {
        &self.bytes
    }
//@end
}

impl ActionID {
//@begin fn src/transaction.rs impl:ActionID from_transaction_id props=C19
    pub fn from_transaction_id(trans_id: u64) -> (r: ActionID)
        ensures r.action_id == trans_id >> 24, // @C19.action_prefix_is_top_5_bytes
    {
        proof { lemma_consts(); }
        // The ACTUAL action id
        let shifted_action_id = trans_id >> MESSAGE_ID_SHIFT;

        ActionID {
            action_id: shifted_action_id,
        }
    }
//@end
}

