// ================= transaction.rs =================

/// a block of 2048 pairwise distinct ids inside [start, start + 2048)
pub open spec fn distinct_in_block(a: Seq<u64>, start: int) -> bool {
    a.len() == 2048
    && (forall|i: int| 0 <= i < 2048 ==> start <= #[trigger] a[i] < start + 2048)
    && (forall|i: int, j: int| 0 <= i < j < 2048 ==> #[trigger] a[i] != #[trigger] a[j])
}
// TRUSTED: rand's SliceRandom::shuffle permutes the slice in place (rule R-shuffle)
pub struct ThreadRng {}
pub mod rand { use super::*; #[verifier::external_body] pub fn thread_rng() -> ThreadRng { unimplemented!() } }
#[verifier::external_body]
pub fn vx_shuffle(a: &mut [u64; 2048], rng: &mut ThreadRng)
    ensures forall|start: int| distinct_in_block(old(a)@, start) ==> #[trigger] distinct_in_block(final(a)@, start)
{ unimplemented!() }

//@include inc/txid_types.rs
/// ghost: every id issued so far by one generator, in order
pub tracked struct Hist { pub ghost s: Seq<u64> }

//@begin type src/transaction.rs - struct MIDGenerator
pub struct MIDGenerator {
    pub action_id: u64,
    pub next_alloc: u64,
    pub curr_index: usize,
    pub message_ids: [u64; MESSAGE_ID_PREALLOC_LEN],
}
//@end

pub open spec fn M() -> int { 0x1000000 }
pub open spec fn block_spec(start: int) -> Seq<u64> { Seq::new(2048, |i: int| (start + i) as u64) }

pub proof fn lemma_block(len: int, pos: int)
    requires 0 <= len, 0 <= pos < 0x1000000, len % 0x1000000 == pos
    ensures (len / 2048) % 8192 == pos / 2048, len % 2048 == pos % 2048
{
    use vstd::arithmetic::div_mod::*;
    let q = len / 0x1000000;
    lemma_fundamental_div_mod(len, 0x1000000);
    assert(len == 0x1000000 * q + pos);
    let a = pos / 2048; let b = pos % 2048;
    lemma_fundamental_div_mod(pos, 2048);
    assert(pos == 2048 * a + b);
    assert(0 <= a < 8192);
    assert(q >= 0) by { lemma_div_pos_is_pos(len, 0x1000000); }
    assert(len == (q * 8192 + a) * 2048 + b) by (nonlinear_arith) requires len == 0x1000000 * q + pos, pos == 2048 * a + b;
    lemma_fundamental_div_mod_converse(len, 2048, q * 8192 + a, b);
    lemma_fundamental_div_mod_converse(q * 8192 + a, 8192, q, a);
}
pub proof fn lemma_succ_mod(a: int, b: int)
    requires 0 <= a, 0 <= b, a % 0x1000000 == b % 0x1000000
    ensures (a + 1) % 0x1000000 == (b + 1) % 0x1000000
{
    assert((a + 1) % 0x1000000 == (b + 1) % 0x1000000) by (nonlinear_arith) requires 0 <= a, 0 <= b, a % 0x1000000 == b % 0x1000000;
}
pub proof fn lemma_same_block(i: int, len: int, ci: int)
    requires 0 <= i < len, i / 2048 == len / 2048, len % 2048 == ci
    ensures i >= len - ci
{
    assert(i >= len - ci) by (nonlinear_arith) requires 0 <= i < len, i / 2048 == len / 2048, len % 2048 == ci;
}

impl MIDGenerator {
    pub open spec fn inv(&self) -> bool {
        &&& self.curr_index <= 2048
        &&& self.action_id & 0xFFFFFF == 0
        &&& (self.next_alloc == 0 && self.curr_index == 2048
             || 2048 <= self.next_alloc <= M() && self.next_alloc % 2048 == 0 && distinct_in_block(self.message_ids@, self.next_alloc - 2048))
    }
    pub open spec fn pos(&self) -> int { if self.next_alloc == 0 { 0 } else { self.next_alloc - 2048 + self.curr_index } }
    /// hist: every message id issued so far by this generator, in order
    pub open spec fn rep(&self, hist: Seq<u64>) -> bool {
        &&& (hist.len() as int) % M() == self.pos() % M()
        &&& (forall|i: int| 0 <= i < hist.len() ==> 2048 * ((i / 2048) % 8192) <= #[trigger] hist[i] < 2048 * ((i / 2048) % 8192) + 2048)
        &&& (forall|i: int, j: int| 0 <= i < j < hist.len() && i / 2048 == j / 2048 ==> #[trigger] hist[i] != #[trigger] hist[j])
        &&& (self.next_alloc != 0 ==> self.curr_index <= hist.len() && forall|j: int| 0 <= j < self.curr_index ==> hist[hist.len() - self.curr_index + j] == #[trigger] self.message_ids@[j])
    }

//@begin fn src/transaction.rs impl:MIDGenerator new props=C19
    pub fn new(action_id: u64) -> (g: MIDGenerator)
        requires action_id & 0xFFFFFF == 0
        ensures g.inv(), g.rep(Seq::empty()), g.action_id == action_id
    {
        // In order to speed up tests, we will generate the first block lazily.
        MIDGenerator {
            action_id,
            next_alloc: 0,
            curr_index: MESSAGE_ID_PREALLOC_LEN,
            message_ids: [0u64; MESSAGE_ID_PREALLOC_LEN],
        }
    }
//@end

//@begin fn src/transaction.rs impl:MIDGenerator action_id props=C19
    pub fn action_id(&self) -> (r: ActionID)
        ensures r.action_id == self.action_id >> 24,
    {
        ActionID::from_transaction_id(self.action_id)
    }
//@end

//@begin fn src/transaction.rs impl:MIDGenerator generate props=C19
    pub fn generate(&mut self, Tracked(h): Tracked<&mut Hist>) -> (r: TransactionID)
        requires old(self).inv(), old(self).rep(old(h).s)
        ensures final(self).inv(), final(self).rep(final(h).s), final(self).action_id == old(self).action_id, // @C19.generator_invariant
            final(h).s.len() == old(h).s.len() + 1, final(h).s.drop_last() == old(h).s,
            tid_value(r) == old(self).action_id | final(h).s.last(), final(h).s.last() < M(), // @C19.id_is_action_prefix_or_message_id
        decreases (if old(self).curr_index < 2048 { 0int } else { 1int })
    {
        let ghost hist = h.s;
        let opt_message_id = self.message_ids.get(self.curr_index).copied();

        if let Some(message_id) = opt_message_id {
            self.curr_index += 1;
            proof {
                let ci = old(self).curr_index as int;
                let len = hist.len() as int;
                let na = self.next_alloc as int;
                let h2 = hist.push(message_id);
                assert(ci < 2048 && message_id == old(self).message_ids@[ci]);
                assert(na >= 2048);
                // arithmetic facts about positions
                let pos = na - 2048 + ci;
                assert(0 <= pos < M());
                assert(len % M() == pos);
                lemma_block(len, pos);
                assert((len / 2048) % 8192 == (na - 2048) / 2048 && len % 2048 == ci);
                assert(2048 * ((na - 2048) / 2048) == na - 2048);
                assert((len + 1) % M() == (pos + 1) % M()) by { lemma_succ_mod(len, pos); }
                assert forall|i: int| 0 <= i < h2.len() implies 2048 * ((i / 2048) % 8192) <= #[trigger] h2[i] < 2048 * ((i / 2048) % 8192) + 2048 by {
                    if i < len { assert(h2[i] == hist[i]); }
                }
                assert forall|i: int, j: int| 0 <= i < j < h2.len() && i / 2048 == j / 2048 implies #[trigger] h2[i] != #[trigger] h2[j] by {
                    if j < len { assert(h2[i] == hist[i] && h2[j] == hist[j]); }
                    else {
                        // i lies in the current block: i >= len - ci
                        lemma_same_block(i, len, ci);
                        let jj = i - (len - ci);
                        assert(hist[len - ci + jj] == old(self).message_ids@[jj]);
                    }
                }
                assert forall|j: int| 0 <= j < self.curr_index implies h2[h2.len() - self.curr_index + j] == #[trigger] self.message_ids@[j] by {
                    if j < ci { assert(hist[len - ci + j] == old(self).message_ids@[j]); }
                }
                assert(h2.drop_last() =~= hist);
                h.s = h2;
            }

            TransactionID::new(self.action_id | message_id)
        } else {
            // Get a new block of message ids
            let (next_alloc, mut message_ids) = generate_mids(self.next_alloc);

            // Randomize the order of ids
            vx_shuffle(&mut message_ids, &mut rand::thread_rng());

            self.next_alloc = next_alloc;
            self.message_ids = message_ids;
            self.curr_index = 0;
            proof {
                let start: int = if old(self).next_alloc == M() { 0 } else { old(self).next_alloc as int };
                assert(distinct_in_block(block_spec(start), start));
                assert(self.inv());
                assert(self.rep(hist));
            }

            self.generate(Tracked(h))
        }
    }
//@end
}

//@begin fn src/transaction.rs - generate_mids props=C19
pub fn generate_mids(next_alloc: u64) -> (r: (u64, [u64; MESSAGE_ID_PREALLOC_LEN]))
    requires next_alloc <= M(), next_alloc % 2048 == 0
    ensures ({ let start: int = if next_alloc == M() { 0 } else { next_alloc as int };
        r.0 == start + 2048 && r.0 <= M() && r.0 % 2048 == 0 && forall|i: int| 0 <= i < 2048 ==> #[trigger] r.1@[i] == start + i }), // @C19.fresh_block_is_next_2048_ids
{
    proof { lemma_consts(); }
    // Check if we need to wrap
    let (next_alloc_start, next_alloc_end) = if next_alloc == MAX_MESSAGE_ID {
        (0, MESSAGE_ID_PREALLOC_LEN as u64)
    } else {
        (next_alloc, next_alloc + MESSAGE_ID_PREALLOC_LEN as u64)
    };
    let mut message_ids = [0u64; MESSAGE_ID_PREALLOC_LEN];

    let mut vx_n: usize = 0;
    for message_id in it: next_alloc_start..next_alloc_end
        invariant vx_n == message_id - next_alloc_start, next_alloc_end == next_alloc_start + 2048, next_alloc_start <= message_id <= next_alloc_end,
           forall|i: int| 0 <= i < vx_n ==> #[trigger] message_ids@[i] == next_alloc_start + i,
    {
        let index = vx_n; vx_n += 1;
        message_ids[index] = message_id;
    }

    (next_alloc_end, message_ids)
}
//@end

// ---------------- AIDGenerator: the 5-byte action prefixes ----------------
//@begin type src/transaction.rs - struct AIDGenerator
pub struct AIDGenerator {
    pub next_alloc: u64,
    pub curr_index: usize,
    pub action_ids: [u64; ACTION_ID_PREALLOC_LEN],
}
//@end
pub open spec fn A() -> int { 0x10000000000 }
pub proof fn lemma_block_a(len: int, pos: int)
    requires 0 <= len, 0 <= pos < 0x10000000000, len % 0x10000000000 == pos
    ensures (len / 2048) % 0x20000000 == pos / 2048, len % 2048 == pos % 2048
{
    use vstd::arithmetic::div_mod::*;
    let q = len / 0x10000000000;
    lemma_fundamental_div_mod(len, 0x10000000000);
    assert(len == 0x10000000000 * q + pos);
    let a = pos / 2048; let b = pos % 2048;
    lemma_fundamental_div_mod(pos, 2048);
    assert(pos == 2048 * a + b);
    assert(0 <= a < 0x20000000);
    assert(q >= 0) by { lemma_div_pos_is_pos(len, 0x10000000000); }
    assert(len == (q * 0x20000000 + a) * 2048 + b) by (nonlinear_arith) requires len == 0x10000000000 * q + pos, pos == 2048 * a + b;
    lemma_fundamental_div_mod_converse(len, 2048, q * 0x20000000 + a, b);
    lemma_fundamental_div_mod_converse(q * 0x20000000 + a, 0x20000000, q, a);
}
pub proof fn lemma_succ_mod_a(a: int, b: int)
    requires 0 <= a, 0 <= b, a % 0x10000000000 == b % 0x10000000000
    ensures (a + 1) % 0x10000000000 == (b + 1) % 0x10000000000
{
    assert((a + 1) % 0x10000000000 == (b + 1) % 0x10000000000) by (nonlinear_arith) requires 0 <= a, 0 <= b, a % 0x10000000000 == b % 0x10000000000;
}

impl AIDGenerator {
    pub open spec fn inv(&self) -> bool {
        &&& self.curr_index <= 2048
        &&& 2048 <= self.next_alloc <= A() && self.next_alloc % 2048 == 0 && distinct_in_block(self.action_ids@, self.next_alloc - 2048)
    }
    pub open spec fn pos(&self) -> int { self.next_alloc - 2048 + self.curr_index }
    /// hist: every action id (unshifted) handed out so far, in order
    pub open spec fn rep(&self, hist: Seq<u64>) -> bool {
        &&& (hist.len() as int) % A() == self.pos() % A()
        &&& (forall|i: int| 0 <= i < hist.len() ==> 2048 * ((i / 2048) % 0x20000000) <= #[trigger] hist[i] < 2048 * ((i / 2048) % 0x20000000) + 2048)
        &&& (forall|i: int, j: int| 0 <= i < j < hist.len() && i / 2048 == j / 2048 ==> #[trigger] hist[i] != #[trigger] hist[j])
        &&& (self.curr_index <= hist.len() && forall|j: int| 0 <= j < self.curr_index ==> hist[hist.len() - self.curr_index + j] == #[trigger] self.action_ids@[j])
    }

//@begin fn src/transaction.rs impl:AIDGenerator new props=C19
    pub fn new() -> (g: AIDGenerator)
        ensures g.inv(), g.rep(Seq::empty()),
    {
        let (next_alloc, mut action_ids) = generate_aids(0);

        // Randomize the order of ids
        vx_shuffle(&mut action_ids, &mut rand::thread_rng());
        proof { assert(distinct_in_block(block_spec(0), 0)); }

        AIDGenerator {
            next_alloc,
            curr_index: 0,
            action_ids,
        }
    }
//@end

//@begin fn src/transaction.rs impl:AIDGenerator generate props=C19
    pub fn generate(&mut self, Tracked(h): Tracked<&mut Hist>) -> (r: MIDGenerator)
        requires old(self).inv(), old(self).rep(old(h).s)
        ensures final(self).inv(), final(self).rep(final(h).s), // @C19.generator_invariant
            final(h).s.len() == old(h).s.len() + 1, final(h).s.drop_last() == old(h).s,
            r.inv(), r.rep(Seq::empty()), final(h).s.last() < A(),
            r.action_id >> 24 == final(h).s.last(), // @C19.activity_gets_the_next_unused_prefix
        decreases (if old(self).curr_index < 2048 { 0int } else { 1int })
    {
        let ghost hist = h.s;
        let opt_action_id = self.action_ids.get(self.curr_index).copied();

        if let Some(action_id) = opt_action_id {
            self.curr_index += 1;
            proof {
                lemma_consts();
                let ci = old(self).curr_index as int;
                let len = hist.len() as int;
                let na = self.next_alloc as int;
                let h2 = hist.push(action_id);
                assert(ci < 2048 && action_id == old(self).action_ids@[ci]);
                let pos = na - 2048 + ci;
                assert(0 <= pos < A());
                assert(len % A() == pos);
                lemma_block_a(len, pos);
                assert((len / 2048) % 0x20000000 == (na - 2048) / 2048 && len % 2048 == ci);
                assert(2048 * ((na - 2048) / 2048) == na - 2048);
                assert((len + 1) % A() == (pos + 1) % A()) by { lemma_succ_mod_a(len, pos); }
                assert forall|i: int| 0 <= i < h2.len() implies 2048 * ((i / 2048) % 0x20000000) <= #[trigger] h2[i] < 2048 * ((i / 2048) % 0x20000000) + 2048 by {
                    if i < len { assert(h2[i] == hist[i]); }
                }
                assert forall|i: int, j: int| 0 <= i < j < h2.len() && i / 2048 == j / 2048 implies #[trigger] h2[i] != #[trigger] h2[j] by {
                    if j < len { assert(h2[i] == hist[i] && h2[j] == hist[j]); }
                    else {
                        lemma_same_block(i, len, ci);
                        let jj = i - (len - ci);
                        assert(hist[len - ci + jj] == old(self).action_ids@[jj]);
                    }
                }
                assert forall|j: int| 0 <= j < self.curr_index implies h2[h2.len() - self.curr_index + j] == #[trigger] self.action_ids@[j] by {
                    if j < ci { assert(hist[len - ci + j] == old(self).action_ids@[j]); }
                }
                assert(h2.drop_last() =~= hist);
                h.s = h2;
                assert(action_id < 0x10000000000);
                assert((action_id << 24) & 0xFFFFFF == 0 && (action_id << 24) >> 24 == action_id) by (bit_vector) requires action_id < 0x10000000000;
            }

            // Shift the action id to make room for the message id
            MIDGenerator::new(action_id << MESSAGE_ID_SHIFT)
        } else {
            // Get a new block of action ids
            let (next_alloc, mut action_ids) = generate_aids(self.next_alloc);

            // Randomize the order of ids
            vx_shuffle(&mut action_ids, &mut rand::thread_rng());

            self.next_alloc = next_alloc;
            self.action_ids = action_ids;
            self.curr_index = 0;
            proof {
                let start: int = if old(self).next_alloc == A() { 0 } else { old(self).next_alloc as int };
                assert(distinct_in_block(block_spec(start), start));
                assert(self.inv());
                assert(self.rep(hist));
            }

            self.generate(Tracked(h))
        }
    }
//@end
}

//@begin fn src/transaction.rs - generate_aids props=C19
pub fn generate_aids(next_alloc: u64) -> (r: (u64, [u64; ACTION_ID_PREALLOC_LEN]))
    requires next_alloc <= A(), next_alloc % 2048 == 0
    ensures ({ let start: int = if next_alloc == A() { 0 } else { next_alloc as int };
        r.0 == start + 2048 && r.0 <= A() && r.0 % 2048 == 0 && forall|i: int| 0 <= i < 2048 ==> #[trigger] r.1@[i] == start + i }), // @C19.fresh_block_is_next_2048_ids
{
    proof { lemma_consts(); }
    // Check if we need to wrap
    let (next_alloc_start, next_alloc_end) = if next_alloc == MAX_ACTION_ID {
        (0, ACTION_ID_PREALLOC_LEN as u64)
    } else {
        (next_alloc, next_alloc + ACTION_ID_PREALLOC_LEN as u64)
    };
    let mut action_ids = [0u64; ACTION_ID_PREALLOC_LEN];

    let mut vx_n: usize = 0;
    for action_id in it: next_alloc_start..next_alloc_end
        invariant vx_n == action_id - next_alloc_start, next_alloc_end == next_alloc_start + 2048, next_alloc_start <= action_id <= next_alloc_end,
           forall|i: int| 0 <= i < vx_n ==> #[trigger] action_ids@[i] == next_alloc_start + i,
    {
        let index = vx_n; vx_n += 1;
        action_ids[index] = action_id;
    }

    (next_alloc_end, action_ids)
}
//@end

// C19: the first 2^40 activities created by one node get pairwise distinct 5-byte prefixes
//@props C19
pub proof fn theorem_aids_distinct(g: AIDGenerator, hist: Seq<u64>, i: int, j: int)
    requires g.rep(hist), 0 <= i < j < hist.len(), j < A()
    ensures hist[i] != hist[j] // @C19.no_action_prefix_shared_between_activities
{
    if i / 2048 == j / 2048 {
    } else {
        assert((i / 2048) % 0x20000000 == i / 2048 && (j / 2048) % 0x20000000 == j / 2048 && i / 2048 < j / 2048) by (nonlinear_arith)
            requires 0 <= i < j < 0x10000000000, i / 2048 != j / 2048;
        assert(2048 * (i / 2048) + 2048 <= 2048 * (j / 2048)) by (nonlinear_arith) requires i / 2048 < j / 2048;
    }
}

// C19: the first 2^24 message ids of one activity are pairwise distinct
//@props C19
pub proof fn theorem_mids_distinct(g: MIDGenerator, hist: Seq<u64>, i: int, j: int)
    requires g.rep(hist), 0 <= i < j < hist.len(), j < M()
    ensures hist[i] != hist[j] // @C19.no_message_id_repeats_before_2_pow_24
{
    if i / 2048 == j / 2048 {
    } else {
        assert((i / 2048) % 8192 == i / 2048 && (j / 2048) % 8192 == j / 2048 && i / 2048 < j / 2048) by (nonlinear_arith)
            requires 0 <= i < j < 0x1000000, i / 2048 != j / 2048;
        assert(2048 * (i / 2048) + 2048 <= 2048 * (j / 2048)) by (nonlinear_arith) requires i / 2048 < j / 2048;
    }
}

// every id carries the activity's 5-byte prefix and the message id in the low 3 bytes
//@props C19
pub proof fn lemma_tid_split(action_id: u64, mid: u64)
    requires action_id & 0xFFFFFF == 0, mid < 0x1000000
    ensures (action_id | mid) >> 24 == action_id >> 24, (action_id | mid) & 0xFFFFFF == mid // @C19.prefix_and_message_id_do_not_overlap
{
    assert((action_id | mid) >> 24 == action_id >> 24 && (action_id | mid) & 0xFFFFFF == mid) by (bit_vector)
        requires action_id & 0xFFFFFF == 0, mid < 0x1000000;
}
