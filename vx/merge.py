"""Token-level three-way merge: carries the annotations (base -> annotated: only ghost tokens are
inserted) onto the current repository text (base -> current: whatever changed in /repo)."""
import os
import subprocess
import tempfile


class MergeConflict(Exception):
    pass


def _enc(t):
    return t.replace("\\", "\\\\").replace("\n", "\\n")


def _dec(t):
    out, i = [], 0
    while i < len(t):
        if t[i] == "\\" and i + 1 < len(t):
            out.append("\n" if t[i + 1] == "n" else t[i + 1])
            i += 2
        else:
            out.append(t[i])
            i += 1
    return "".join(out)


def merge3(base, ann, cur):
    """all arguments are token lists; returns the merged token list or raises MergeConflict."""
    d = tempfile.mkdtemp(prefix="vxmerge")
    try:
        paths = {}
        for name, toks in (("cur", cur), ("base", base), ("ann", ann)):
            p = os.path.join(d, name)
            with open(p, "w") as f:
                f.write("".join(_enc(t) + "\n" for t in toks))
            paths[name] = p
        r = subprocess.run(["git", "merge-file", "-p", "--diff3", paths["cur"], paths["base"], paths["ann"]],
                           capture_output=True, text=True)
        if r.returncode != 0:
            raise MergeConflict("git merge-file: %d conflict(s)\n%s" % (r.returncode, _conflict_excerpt(r.stdout)))
        return [_dec(l) for l in r.stdout.split("\n") if l != ""]
    finally:
        for f in os.listdir(d):
            os.unlink(os.path.join(d, f))
        os.rmdir(d)


def _conflict_excerpt(text):
    lines = text.split("\n")
    out = []
    for i, l in enumerate(lines):
        if l.startswith("<<<<<<<"):
            out.append(" ".join(lines[max(0, i - 8):i]))
            j = i
            while j < len(lines) and not lines[j].startswith(">>>>>>>"):
                j += 1
            out.append(" ".join(lines[i:j + 1]))
    return "\n".join(out[:6])
