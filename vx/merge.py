"""Token-level three-way merge: carries the annotations (base -> annotated: only ghost tokens are
inserted, base = erase(annotated)) onto the current repository text (base -> current: whatever
changed in /repo).

Because base -> annotated is insertion-only and the eraser reports which annotated token each
base token came from, the merge is exact about *what* is inserted; the only heuristic is *where* a
ghost run goes when its neighbourhood changed in /repo:
  * base and current are aligned by their common prefix/suffix; the middle is aligned by difflib;
  * a run whose left neighbour survives is placed right after it; otherwise before its surviving
    right neighbour; a run starting with a closing bracket prefers its right-hand side (it closes
    something that may have grown), any other run prefers its left-hand side;
  * a run strictly inside a replaced block whose both neighbours changed is a conflict.
Whatever the placement, the caller re-runs the erasure check on the result (erase(merged) must
equal the current text token for token), so a wrong placement can only lead to exit 2.
"""
import difflib

from . import erase as E
from . import lex


class MergeConflict(Exception):
    pass


def _align(base, cur, coarse=False):
    """-> list m of len(base): m[i] = index in cur matched to base[i], or None.
    coarse: only the common prefix and suffix are aligned (the whole middle counts as rewritten)"""
    n, k = len(base), len(cur)
    p = 0
    while p < n and p < k and base[p] == cur[p]:
        p += 1
    s = 0
    while s < n - p and s < k - p and base[n - 1 - s] == cur[k - 1 - s]:
        s += 1
    # pure deletion / pure insertion: the block can often be slid to the left (repeated tokens such as
    # `self . expires .`); prefer the position where it starts right after a statement boundary
    BOUND = (";", "{", "}", ",")
    if p + s == k and n > k:          # tokens deleted from base
        d = n - k
        shift = 0
        while p - shift - 1 >= 0 and base[p - shift - 1] == base[p - shift - 1 + d]:
            shift += 1
            if p - shift - 1 >= 0 and base[p - shift - 1] in BOUND:
                p, s = p - shift, s + shift
                break
    elif p + s == n and k > n:        # tokens inserted into cur
        d = k - n
        shift = 0
        while p - shift - 1 >= 0 and cur[p - shift - 1] == cur[p - shift - 1 + d]:
            shift += 1
            if p - shift - 1 >= 0 and cur[p - shift - 1] in BOUND:
                p, s = p - shift, s + shift
                break
    m = [None] * n
    for i in range(p):
        m[i] = i
    for i in range(s):
        m[n - 1 - i] = k - 1 - i
    mb, mc = base[p:n - s], cur[p:k - s]
    if mb and mc and not coarse:
        sm = difflib.SequenceMatcher(None, mb, mc, autojunk=False)
        for a, b, size in sm.get_matching_blocks():
            # ignore tiny accidental matches of pure punctuation inside a rewritten block
            if size == 0:
                continue
            if size <= 2 and all(not (t[0].isalnum() or t[0] == "_") for t in mb[a:a + size]):
                continue
            for q in range(size):
                m[p + a + q] = p + b + q
        _slide(base, cur, m, BOUND)
    return m


def _best_shift(seq, a, b, lo, hi, BOUND):
    """run seq[a:b] can be slid left while seq[a-1]==seq[b-1] and right while seq[a]==seq[b] (same resulting text);
    lo/hi: how far the neighbours allow.  -> the smallest |shift| after which the run starts right after a boundary, or 0"""
    if a > 0 and seq[a - 1] in BOUND:
        return 0
    left = 0
    while left < lo and a - left - 1 >= 0 and seq[a - left - 1] == seq[b - left - 1]:
        left += 1
    right = 0
    while right < hi and b + right < len(seq) and seq[a + right] == seq[b + right]:
        right += 1
    for d in range(1, max(left, right) + 1):
        if d <= right and seq[a + d - 1] in BOUND:
            return d
        if d <= left and a - d - 1 >= 0 and seq[a - d - 1] in BOUND:
            return -d
    return 0


def _slide(base, cur, m, BOUND):
    """difflib may align a deleted / inserted statement shifted by a few repeated tokens (`) ;`): slide every pure deletion and
    pure insertion until it starts right after a statement boundary (the resulting texts are identical)."""
    n, k = len(base), len(cur)
    # pure deletions: base[a:b] unmatched, neighbours matched to adjacent cur tokens
    a = 0
    while a < n:
        if m[a] is not None:
            a += 1
            continue
        b = a
        while b < n and m[b] is None:
            b += 1
        if a > 0 and b < n and m[a - 1] is not None and m[b] == m[a - 1] + 1:
            lo = 0
            while a - lo - 1 >= 0 and m[a - lo - 1] is not None and m[a - lo - 1] == m[a - 1] - lo:
                lo += 1
            hi = 0
            while b + hi < n and m[b + hi] is not None and m[b + hi] == m[b] + hi:
                hi += 1
            d = _best_shift(base, a, b, lo, hi, BOUND)
            if d > 0:
                for t in range(d):
                    m[a + t] = m[b + t]
                for t in range(d):
                    m[b + t] = None
                b += d
            elif d < 0:
                for t in range(1, -d + 1):
                    m[b - t] = m[a - t]
                for t in range(1, -d + 1):
                    m[a - t] = None
        a = b
    # pure insertions: cur[c:d] unmatched, neighbours matched to adjacent base tokens
    inv = {}
    for i, c in enumerate(m):
        if c is not None:
            inv[c] = i
    c = 0
    while c < k:
        if c in inv:
            c += 1
            continue
        e = c
        while e < k and e not in inv:
            e += 1
        if c > 0 and e < k and (c - 1) in inv and inv[e] == inv[c - 1] + 1:
            lo = 0
            while c - lo - 1 >= 0 and (c - lo - 1) in inv and inv[c - lo - 1] == inv[c - 1] - lo:
                lo += 1
            hi = 0
            while e + hi < k and (e + hi) in inv and inv[e + hi] == inv[e] + hi:
                hi += 1
            d = _best_shift(cur, c, e, lo, hi, BOUND)
            if d > 0:
                for t in range(d):
                    m[inv[e + t]] = c + t
                e += d
            elif d < 0:
                for t in range(1, -d + 1):
                    m[inv[c - t]] = e - t
        c = e


def merge3(base, ann, cur, dropped=None, coarse=False):
    """base is ignored except for a consistency check: it must equal erase(ann)."""
    pairs = E.erase_idx(ann)
    b2 = [t for t, _ in pairs]
    if b2 != base:
        raise MergeConflict("internal: base != erase(annotated)")
    n = len(base)
    # insertion runs: gap g (0..n) = ghost tokens of ann between base[g-1] and base[g]
    idx = [ix for _, ix in pairs]
    runs = {}
    prev = -1
    for g in range(n + 1):
        nxt = None
        if g < n:
            nxt = idx[g]
            if nxt is None:
                # synthesised token (exec const '=' / ';'): no ghost run can be attached here
                continue
        else:
            nxt = len(ann)
        if nxt < prev + 1:
            raise MergeConflict("internal: eraser indices not monotone")
        run = ann[prev + 1:nxt]
        if run:
            runs[g] = run
        prev = nxt if g < n else prev
    if dropped is None:
        dropped = []
    m = _align(base, cur, coarse)
    if coarse:
        # proof hints (proof blocks, asserts, ghost lets) that touch the rewritten middle are hints about code that is gone
        lo = 0
        while lo < n and m[lo] is not None and m[lo] == lo:
            lo += 1
        hi = n
        while hi > lo and m[hi - 1] is not None:
            hi -= 1
        gone = set()    # ghost variables whose declaration is dropped
        # ghost STATE (variables declared `let ghost mut`): a proof block that assigns one of them is not a hint -- later clauses are
        # stated over that state -- and must not be dropped silently
        gmut = set(ann[k + 3] for k in range(len(ann) - 3) if ann[k] == "let" and ann[k + 1] == "ghost" and ann[k + 2] == "mut")
        for g in list(runs):
            if lo <= g <= hi and runs[g][0] in ("proof", "assert", "let", "broadcast", "assume"):
                r_ = runs[g]
                if r_[0] == "proof" and any(r_[k] in gmut and r_[k + 1] == "=" and r_[k + 2] != "=" for k in range(len(r_) - 2)):
                    raise MergeConflict("a proof block that updates ghost state (%s) sits in the rewritten part of the function" % ", ".join(sorted(t for t in r_ if t in gmut)))
                for k in range(len(r_) - 2):
                    if r_[k] == "let" and r_[k + 1] == "ghost":
                        gone.add(r_[k + 3] if r_[k + 2] == "mut" else r_[k + 2])
                dropped.append(" ".join(runs[g][:16]))
                del runs[g]
        # hints outside the rewritten part that talk about a ghost variable declared inside it go too
        for g in list(runs):
            if gone and runs[g][0] in ("proof", "assert", "assume") and any(t in gone for t in runs[g]):
                dropped.append(" ".join(runs[g][:16]))
                del runs[g]
    # where do the runs go in cur?  after[c] = runs placed after cur[c] (c = -1: at the very start)
    after = {}
    for g, run in runs.items():
        left = m[g - 1] if g > 0 else -1
        right = m[g] if g < n else len(cur)
        # right-affine runs: closing brackets, and spec clause lists (they sit immediately before a body `{`)
        closing = run[0] in ("}", ")", "]") or run[0] in E.SPEC_KW
        if g == 0:
            pos = -1
        elif g == n:
            pos = len(cur) - 1
        elif left is not None and right is not None:
            pos = (right - 1) if closing else left
        elif left is not None:
            if closing:
                # extend over the rewritten block up to the next surviving base token
                q = g
                while q < n and m[q] is None:
                    q += 1
                pos = (m[q] - 1) if q < n else len(cur) - 1
            else:
                pos = left
        elif right is not None:
            if closing:
                pos = right - 1
            else:
                q = g - 1
                while q >= 0 and m[q] is None:
                    q -= 1
                pos = m[q] if q >= 0 else -1
        else:
            # both neighbours were rewritten/deleted in /repo: the annotation belonged to code that is gone
            dropped.append(" ".join(run[:16]))
            continue
        after.setdefault(pos, []).append((g, run))
    out = []
    for g, run in sorted(after.get(-1, [])):
        out.extend(run)
    for c, t in enumerate(cur):
        out.append(t)
        for g, run in sorted(after.get(c, [])):
            out.extend(run)
    return out



def prune_dangling_ghost(ann, merged):
    """ghost variables (`let ghost [mut] X`) declared in the annotated text but no longer in the merged text (their declaration was an
    annotation of code that is gone): `proof { .. }` blocks and `assert(..);` statements that still mention them are hints about code
    that is gone too and are removed.  Only ghost syntax is removed, so the erasure check is unaffected.  -> (tokens, n removed)"""
    def decls(toks):
        d = set()
        for k in range(len(toks) - 2):
            if toks[k] == "let" and toks[k + 1] == "ghost":
                d.add(toks[k + 3] if toks[k + 2] == "mut" else toks[k + 2])
        return d
    missing = decls(ann) - decls(merged)
    if not missing:
        return merged, 0
    out, i, n = [], 0, 0
    while i < len(merged):
        t = merged[i]
        if t == "proof" and i + 1 < len(merged) and merged[i + 1] == "{":
            e = lex.match_close(merged, i + 1)
            if any(x in missing for x in merged[i + 2:e]):
                i = e + 1
                n += 1
                continue
        if t == "assert" and i + 1 < len(merged) and merged[i + 1] == "(":
            e = lex.match_close(merged, i + 1)
            j = e + 1
            if j < len(merged) and merged[j] == "by":
                while j < len(merged) and merged[j] != "{":
                    j += 1
                j = lex.match_close(merged, j) + 1
            if j < len(merged) and merged[j] == ";":
                j += 1
            if any(x in missing for x in merged[i:j]):
                i = j
                n += 1
                continue
        out.append(t)
        i += 1
    if n:
        # a ghost-only `else { proof { .. } }` whose proof block went leaves `else { }` behind: remove it (the erasure check still
        # guards: a real empty else of /repo would make it fail)
        o2, k = [], 0
        while k < len(out):
            if out[k:k + 3] == ["else", "{", "}"]:
                k += 3
                continue
            o2.append(out[k])
            k += 1
        out = o2
    return out, n

# ---------------------------------------------------------------------------------------------
# ghost-argument completion: calls that moved or were added by a change carry no ghost arguments.
# The annotated template tells which callee takes which trailing `Tracked(..)` / `Ghost(..)` arguments;
# they are appended to every call of that callee that has none.  Ghost arguments are erased again by
# the erasure check, so this never alters the executable text that is compared with /repo.
def _calls(toks):
    """yield (name_index, open_index, close_index) for every `name (` ... `)` call or method call"""
    for i in range(1, len(toks) - 1):
        if toks[i + 1] == "(" and (toks[i][0].isalpha() or toks[i][0] == "_") and toks[i] not in ("if", "while", "match", "for", "fn", "return", "in", "as", "Some", "Ok", "Err", "Tracked", "Ghost", "assert", "assume", "forall", "exists", "choose", "old", "final"):
            if toks[i - 1] in ("fn", "!"):
                continue
            try:
                c = lex.match_close(toks, i + 1)
            except Exception:
                continue
            yield i, i + 1, c


def _split_args(toks, o, c):
    args, cur, k = [], [], o + 1
    while k < c:
        t = toks[k]
        if t in lex.OPEN:
            e = lex.match_close(toks, k)
            cur.extend(toks[k:e + 1])
            k = e + 1
            continue
        if t == ",":
            args.append(cur)
            cur = []
        else:
            cur.append(t)
        k += 1
    if cur:
        args.append(cur)
    return args


def _key(toks, i):
    """callee key: receiver identifier (if a method call on a plain field/variable) + name"""
    if toks[i - 1] == "." and i >= 2 and (toks[i - 2][0].isalpha() or toks[i - 2][0] == "_"):
        return (toks[i - 2], toks[i])
    if toks[i - 1] == ".":
        return ("", toks[i])
    if toks[i - 1] == "::" and i >= 2:
        return (toks[i - 2] + "::", toks[i])
    return (None, toks[i])


def ghost_arg_table(ann, raw=False):
    """raw: keep the keys whose calls carry no ghost argument (value []) and the keys whose calls disagree (value None), so
    that tables of several functions can be merged without losing a disagreement"""
    table, bad = {}, set()
    for i, o, c in _calls(ann):
        args = _split_args(ann, o, c)
        g = [a for a in args if a and a[0] in ("Tracked", "Ghost")]
        n_exec = len(args) - len(g)
        for key in (_key(ann, i), ("*", ann[i])):
            k = key + (n_exec,)
            if k in table and table[k] != g:
                bad.add(k)
            table.setdefault(k, g)
    if raw:
        for k in bad:
            table[k] = None
        return table
    for k in bad:
        table.pop(k, None)
    return {k: v for k, v in table.items() if v}


UNIT_DEFAULTS = {}  # filled by the unit builder from `//@ghost_default <callee> <n exec args> : <ghost args>` lines of the templates: what a call that
                    # a change added or moved is given when the call sites of the template disagree (the default must make the callee's
                    # precondition an obligation, never discharge it)
UNIT_TABLE = {}     # filled by the unit builder: ghost-argument table of all templates of the unit (fallback for callees the function did not call before)


def merge_tables(tables):
    """tables in raw form (see ghost_arg_table): a callee whose calls disagree anywhere in the unit -- some with, some without
    ghost arguments, or with different ones -- is left out"""
    out, bad = {}, set()
    for t in tables:
        for k, v in t.items():
            if v is None or (k in out and out[k] != v):
                bad.add(k)
            out.setdefault(k, v)
    for k in bad:
        out.pop(k, None)
    return {k: v for k, v in out.items() if v}


def complete_ghost_args(ann, merged):
    table = dict(UNIT_TABLE)
    table.update(ghost_arg_table(ann))
    # only ghost parameters that this function declares can be passed on
    declared = set()
    try:
        k = ann.index("fn")
        o = ann.index("(", k)
        c = lex.match_close(ann, o)
        hdr = ann[o:c]
        for i, t in enumerate(hdr):
            if t in ("Tracked", "Ghost") and hdr[i + 1] == "(" and i + 3 < len(hdr) and hdr[i + 3] == ")":
                declared.add(hdr[i + 2])
    except ValueError:
        pass
    table = {k: v for k, v in table.items() if all(len(a) == 4 and a[2] in declared for a in v)}
    for (name, n), g in UNIT_DEFAULTS.items():
        if ("*", name, n) not in table and all(a[0] != "Tracked" or (len(a) == 4 and a[2] in declared) for a in g):
            table[("*", name, n)] = g
    if not table:
        return merged, 0
    edits = []
    for i, o, c in _calls(merged):
        args = _split_args(merged, o, c)
        if any(a and a[0] in ("Tracked", "Ghost") for a in args):
            continue
        g = table.get(_key(merged, i) + (len(args),)) or table.get(("*", merged[i], len(args)))
        if not g:
            continue
        trailing = merged[c - 1] == ","
        ins = []
        for n, a in enumerate(g):
            if n or (args and not trailing):
                ins.append(",")
            ins += a
        if trailing:
            ins.append(",")
        edits.append((c, ins))
    if not edits:
        return merged, 0
    edits.sort()
    out, prev = [], 0
    for at, ins in edits:
        out.extend(merged[prev:at])
        out.extend(ins)
        prev = at
    out.extend(merged[prev:])
    return out, len(edits)
