"""Token-level three-way merge: carries the annotations (base -> annotated: only ghost tokens are
inserted, base = erase(annotated)) onto the current repository text (base -> current: whatever
changed in /repo).

Because base -> annotated is insertion-only and the eraser reports which annotated token each
base token came from, the merge is exact about *what* is inserted; the only heuristic is *where* a
ghost run goes when its neighbourhood changed in /repo:
  * base and current are aligned by their common prefix/suffix; the middle is aligned by difflib;
  * a run whose left neighbour survives is placed right after it; otherwise before its surviving
    right neighbour; a run starting with a closing bracket prefers its right-hand side (it closes
    something that may have grown), any other run prefers its left-hand side;
  * a run strictly inside a replaced block whose both neighbours changed is a conflict.
Whatever the placement, the caller re-runs the erasure check on the result (erase(merged) must
equal the current text token for token), so a wrong placement can only lead to exit 2.
"""
import difflib

from . import erase as E


class MergeConflict(Exception):
    pass


def _align(base, cur, coarse=False):
    """-> list m of len(base): m[i] = index in cur matched to base[i], or None.
    coarse: only the common prefix and suffix are aligned (the whole middle counts as rewritten)"""
    n, k = len(base), len(cur)
    p = 0
    while p < n and p < k and base[p] == cur[p]:
        p += 1
    s = 0
    while s < n - p and s < k - p and base[n - 1 - s] == cur[k - 1 - s]:
        s += 1
    # pure deletion / pure insertion: the block can often be slid to the left (repeated tokens such as
    # `self . expires .`); prefer the position where it starts right after a statement boundary
    BOUND = (";", "{", "}", ",")
    if p + s == k and n > k:          # tokens deleted from base
        d = n - k
        shift = 0
        while p - shift - 1 >= 0 and base[p - shift - 1] == base[p - shift - 1 + d]:
            shift += 1
            if p - shift - 1 >= 0 and base[p - shift - 1] in BOUND:
                p, s = p - shift, s + shift
                break
    elif p + s == n and k > n:        # tokens inserted into cur
        d = k - n
        shift = 0
        while p - shift - 1 >= 0 and cur[p - shift - 1] == cur[p - shift - 1 + d]:
            shift += 1
            if p - shift - 1 >= 0 and cur[p - shift - 1] in BOUND:
                p, s = p - shift, s + shift
                break
    m = [None] * n
    for i in range(p):
        m[i] = i
    for i in range(s):
        m[n - 1 - i] = k - 1 - i
    mb, mc = base[p:n - s], cur[p:k - s]
    if mb and mc and not coarse:
        sm = difflib.SequenceMatcher(None, mb, mc, autojunk=False)
        for a, b, size in sm.get_matching_blocks():
            # ignore tiny accidental matches of pure punctuation inside a rewritten block
            if size == 0:
                continue
            if size <= 2 and all(not (t[0].isalnum() or t[0] == "_") for t in mb[a:a + size]):
                continue
            for q in range(size):
                m[p + a + q] = p + b + q
    return m


def merge3(base, ann, cur, dropped=None, coarse=False):
    """base is ignored except for a consistency check: it must equal erase(ann)."""
    pairs = E.erase_idx(ann)
    b2 = [t for t, _ in pairs]
    if b2 != base:
        raise MergeConflict("internal: base != erase(annotated)")
    n = len(base)
    # insertion runs: gap g (0..n) = ghost tokens of ann between base[g-1] and base[g]
    idx = [ix for _, ix in pairs]
    runs = {}
    prev = -1
    for g in range(n + 1):
        nxt = None
        if g < n:
            nxt = idx[g]
            if nxt is None:
                # synthesised token (exec const '=' / ';'): no ghost run can be attached here
                continue
        else:
            nxt = len(ann)
        if nxt < prev + 1:
            raise MergeConflict("internal: eraser indices not monotone")
        run = ann[prev + 1:nxt]
        if run:
            runs[g] = run
        prev = nxt if g < n else prev
    if dropped is None:
        dropped = []
    m = _align(base, cur, coarse)
    if coarse:
        # proof hints (proof blocks, asserts, ghost lets) that touch the rewritten middle are hints about code that is gone
        lo = 0
        while lo < n and m[lo] is not None and m[lo] == lo:
            lo += 1
        hi = n
        while hi > lo and m[hi - 1] is not None:
            hi -= 1
        for g in list(runs):
            if lo <= g <= hi and runs[g][0] in ("proof", "assert", "let", "broadcast", "assume"):
                dropped.append(" ".join(runs[g][:16]))
                del runs[g]
    # where do the runs go in cur?  after[c] = runs placed after cur[c] (c = -1: at the very start)
    after = {}
    for g, run in runs.items():
        left = m[g - 1] if g > 0 else -1
        right = m[g] if g < n else len(cur)
        # right-affine runs: closing brackets, and spec clause lists (they sit immediately before a body `{`)
        closing = run[0] in ("}", ")", "]") or run[0] in E.SPEC_KW
        if g == 0:
            pos = -1
        elif g == n:
            pos = len(cur) - 1
        elif left is not None and right is not None:
            pos = (right - 1) if closing else left
        elif left is not None:
            if closing:
                # extend over the rewritten block up to the next surviving base token
                q = g
                while q < n and m[q] is None:
                    q += 1
                pos = (m[q] - 1) if q < n else len(cur) - 1
            else:
                pos = left
        elif right is not None:
            if closing:
                pos = right - 1
            else:
                q = g - 1
                while q >= 0 and m[q] is None:
                    q -= 1
                pos = m[q] if q >= 0 else -1
        else:
            # both neighbours were rewritten/deleted in /repo: the annotation belonged to code that is gone
            dropped.append(" ".join(run[:16]))
            continue
        after.setdefault(pos, []).append((g, run))
    out = []
    for g, run in sorted(after.get(-1, [])):
        out.extend(run)
    for c, t in enumerate(cur):
        out.append(t)
        for g, run in sorted(after.get(c, [])):
            out.extend(run)
    return out
