"""Ghost eraser: removes exactly the Verus-only syntax from an annotated function so that the
result can be compared token-for-token with the (rule-rewritten) repository text.

Style rule for annotations (self-imposed, violations make the erasure check fail = exit 2):
inside requires/ensures/invariant/decreases clause lists and inside `assert ...` heads, a `{`
at bracket depth 0 is not allowed (parenthesise `match`/`if`/struct literals).  The first `{`
at depth 0 after a spec keyword is therefore the body.
"""
from . import lex
from .lex import match_close, is_label

SPEC_KW = {"requires", "ensures", "invariant", "invariant_except_break", "decreases", "recommends",
           "opens_invariants", "no_unwind", "returns"}
GHOST_ATTR = {"verifier", "trigger", "via_fn", "auto"}


class EraseError(Exception):
    pass


def _skip_to_body(toks, i):
    """i at a spec keyword; return index of first depth-0 '{'."""
    j = i
    n = len(toks)
    while j < n:
        t = toks[j]
        if t in ("(", "["):
            j = match_close(toks, j) + 1
            continue
        if t == "{":
            return j
        j += 1
    raise EraseError("spec clause without body near: " + " ".join(toks[i:i + 12]))


def _skip_stmt(toks, i):
    """skip a ghost statement starting at i: ends at depth-0 ';' or after a depth-0 {block} (+ optional ';')."""
    j = i
    n = len(toks)
    while j < n:
        t = toks[j]
        if t in ("(", "["):
            j = match_close(toks, j) + 1
            continue
        if t == "{":
            j = match_close(toks, j) + 1
            if j < n and toks[j] == ";":
                j += 1
            return j
        if t == ";":
            return j + 1
        j += 1
    raise EraseError("unterminated ghost statement near: " + " ".join(toks[i:i + 12]))


def _strip_param_types(params):
    """closure params: list of (tok, idx) between the bars -> without `: Type` parts."""
    out, depth, angle, skipping = [], 0, 0, False
    for pr in params:
        t = pr[0]
        if t in ("(", "[", "{"):
            depth += 1
        elif t in (")", "]", "}"):
            depth -= 1
        elif t == "<":
            angle += 1
        elif t == ">":
            angle -= 1
        elif t == ">>":
            angle -= 2
        if depth == 0 and angle == 0 and t == ":" and not skipping:
            skipping = True
            continue
        if depth == 0 and angle <= 0 and t == "," and skipping:
            skipping = False
            angle = 0
        if not skipping:
            out.append(pr)
    return out


def erase(toks):
    return [t for t, _ in erase_idx(toks)]


def erase_idx(toks, off=0):
    """-> list of (token, index into the annotated token list, or None for synthesised tokens)"""
    toks = list(toks)
    out = []
    unwrap_close = set()   # indices of '}' tokens to drop (closing brace of an annotated closure body)
    i, n = 0, len(toks)

    def last():
        return out[-1][0] if out else ""

    while i < n:
        t = toks[i]
        nxt = toks[i + 1] if i + 1 < n else ""
        if i in unwrap_close:
            i += 1
            continue
        if is_label(t):
            i += 1
            continue
        if t == "#" and nxt == "[" and i + 2 < n and toks[i + 2] in GHOST_ATTR:
            i = match_close(toks, i + 1) + 1
            continue
        if t == "exec" and nxt == "const":
            # exec const N : T ensures ... { e }   ->   const N : T = e ;
            j = i + 1
            while toks[j] not in SPEC_KW and toks[j] != "{":
                out.append((toks[j], off + j))
                j += 1
            b = _skip_to_body(toks, j)
            e = match_close(toks, b)
            out.append(("=", None))
            out.extend(erase_idx(toks[b + 1:e], off + b + 1))
            out.append((";", None))
            i = e + 1
            continue
        if t == "->" and nxt == "(" and i + 3 < n and toks[i + 3] == ":" and toks[i + 2] not in ("(",):
            close = match_close(toks, i + 1)
            is_closure = last() in ("|", "||")
            if is_closure:
                # annotated closure: | p : T | -> ( r : T ) ensures .. { body }   ->   | p | body
                if last() == "|":
                    k = len(out) - 2
                    while k >= 0 and out[k][0] != "|":
                        k -= 1
                    if k < 0:
                        raise EraseError("closure opening bar not found")
                    bar = out[-1]
                    params = _strip_param_types(out[k + 1:len(out) - 1])
                    del out[k + 1:]
                    out.extend(params)
                    out.append(bar)
                j = close + 1
                if j < n and toks[j] in SPEC_KW:
                    j = _skip_to_body(toks, j)
                if toks[j] != "{":
                    raise EraseError("annotated closure without block body")
                e = match_close(toks, j)
                unwrap_close.add(e)
                i = j + 1
                continue
            out.append(("->", off + i))
            for q in range(i + 4, close):
                out.append((toks[q], off + q))
            i = close + 1
            continue
        if t in SPEC_KW:
            i = _skip_to_body(toks, i)
            continue
        if t == "else" and nxt == "{":
            # a ghost-only `else { proof {..} }` branch added for the proof disappears completely
            e = match_close(toks, i + 1)
            inner = erase_idx(toks[i + 2:e], off + i + 2)
            if not inner and e > i + 2:
                i = e + 1
                continue
            out.extend([("else", off + i), ("{", off + i + 1)] + inner + [("}", off + e)])
            i = e + 1
            continue
        if t == "proof" and nxt == "{":
            i = match_close(toks, i + 1) + 1
            continue
        if t in ("assert", "assume") and nxt != "!":
            i = _skip_stmt(toks, i)
            continue
        if t == "let" and nxt in ("ghost", "tracked"):
            i = _skip_stmt(toks, i)
            continue
        if t == "let" and nxt == "vx_ret" and i + 2 < n and toks[i + 2] == "=":
            # `let vx_ret = TAIL ; proof {..} vx_ret`  ==  `TAIL`   (re-binding of the tail expression so a proof can follow it)
            j = i + 3
            while j < n and toks[j] != ";":
                if toks[j] in ("(", "[", "{"):
                    j = match_close(toks, j) + 1
                    continue
                j += 1
            out.extend(erase_idx(toks[i + 3:j], off + i + 3))
            i = j + 1
            continue
        if t == "vx_ret":
            i += 1
            continue
        if t == "broadcast" and nxt == "use":
            i = _skip_stmt(toks, i)
            continue
        if t in ("Tracked", "Ghost") and nxt == "(":
            j = match_close(toks, i + 1) + 1
            if j < n and toks[j] == ":":
                # parameter type  : Tracked < ... >
                j += 1
                angle = 0
                while j < n:
                    if toks[j] == "<":
                        angle += 1
                    elif toks[j] == ">":
                        angle -= 1
                    elif toks[j] == ">>":
                        angle -= 2
                    elif angle <= 0 and toks[j] in (",", ")"):
                        break
                    j += 1
            if last() == ",":
                out.pop()
            elif j < n and toks[j] == ",":
                j += 1
            i = j
            continue
        if last() == "in" and nxt == ":" and t.isidentifier():
            # for x in it: expr
            i += 2
            continue
        out.append((t, off + i))
        i += 1
    return out
