"""Unit assembly and verification.

A unit is a template file under /verif/contracts/<unit>.rs.  It is a complete single-file Verus
input in which every piece of repository code sits in a *region*:

    //@begin fn src/node.rs impl:Node status [rules=R-deasync] [props=C10]
    <annotated text of the function: the repository text + ghost syntax only>
    //@end

    //@begin type src/node.rs - struct Node [drop=field,..]
    <leading #[derive(..)] lines are kept; the item itself is regenerated from /repo on every run>
    //@end

    //@begin const src/node.rs - MAX_LAST_SEEN_MINS
    //@end

On every run each region is rebuilt from /repo's *current* working tree:
  cur  = rules(extract(repo item))                  (catalogue of rewrite rules, every firing logged)
  base = erase(annotated)                           (ghost eraser)
  cur == base  -> the annotated text is used verbatim; this IS the erasure check
  cur != base  -> merged = merge3(base, annotated, cur); erase(merged) must equal cur (else exit 2)
"""
import hashlib
import json
import os
import re
import subprocess
import time

from . import lex, extract, rules, erase, merge

VERIF = os.path.dirname(os.path.dirname(os.path.abspath(__file__)))
REPO = os.environ.get("VERIF_REPO", "/repo")
CONTRACTS = os.path.join(VERIF, "contracts")


class Inconclusive(Exception):
    pass


class Region:
    def __init__(self, kind, args, opts, body, unit):
        self.kind, self.args, self.opts, self.body, self.unit = kind, args, opts, body, unit
        self.changed = False
        self.firings = []
        self.out_text = None
        self.item = None
        self.error = None
        self.line0 = self.line1 = 0   # line span in emitted unit
        self.stubbed = None           # reason, when the current text cannot be processed and the template contract is assumed instead

    @property
    def name(self):
        if self.kind == "fn":
            c = self.args[1]
            if c == "-":
                return self.args[2]
            ty = c.split(":", 1)[1].split("@for@")[-1]
            ty = re.sub(r"^<[^>]*>", "", ty)          # impl<T> Timer<T>
            ty = re.sub(r"<.*$", "", ty)
            return ty + "::" + self.args[2]
        return self.args[-1]

    def props(self):
        p = self.opts.get("props")
        return p.split(",") if p else None


_sources = {}


def source(path):
    full = os.path.join(REPO, path)
    if full not in _sources:
        try:
            _sources[full] = extract.Source(full)
        except FileNotFoundError:
            raise KeyError("source file missing: " + path)
    return _sources[full]


def reset_sources():
    _sources.clear()


def _container(c):
    return "" if c == "-" else c


def _strip_attrs_vis(toks):
    """remove #[...] attributes and pub/pub(..) everywhere in an item token list"""
    out, i = [], 0
    while i < len(toks):
        t = toks[i]
        if t == "#" and i + 1 < len(toks) and toks[i + 1] == "[":
            i = lex.match_close(toks, i + 1) + 1
            continue
        if t == "pub":
            i += 1
            if i < len(toks) and toks[i] == "(":
                i = lex.match_close(toks, i) + 1
            continue
        out.append(t)
        i += 1
    return out


def _pubify_struct(toks, drop=()):
    """struct item tokens (attrs/vis stripped) -> every field pub, dropped fields removed"""
    # find body
    kw = toks[0]
    out = ["pub"]
    if kw == "enum":
        return out + toks
    i = 0
    while i < len(toks) and toks[i] not in ("{", "(", ";"):
        out.append(toks[i])
        i += 1
    if i >= len(toks) or toks[i] == ";":
        return out + toks[i:]
    open_t = toks[i]
    close = lex.match_close(toks, i)
    out.append(open_t)
    # split fields at depth-0 commas (angle-aware)
    fields, cur, depth, angle = [], [], 0, 0
    for t in toks[i + 1:close]:
        if t in lex.OPEN:
            depth += 1
        elif t in lex.CLOSE:
            depth -= 1
        elif t == "<":
            angle += 1
        elif t == ">":
            angle -= 1
        elif t == ">>":
            angle -= 2
        if t == "," and depth == 0 and angle == 0:
            fields.append(cur)
            cur = []
        else:
            cur.append(t)
    if cur:
        fields.append(cur)
    first = True
    for f in fields:
        if open_t == "{" and f[0] in drop:
            continue
        if not first:
            out.append(",")
        first = False
        out.append("pub")
        out.extend(f)
    if open_t == "{" and not first:
        out.append(",")
    out.append(toks[close])
    out.extend(toks[close + 1:])
    return out


def parse_template(path, unit, seen=None):
    """-> list of chunks: str (verbatim text) or Region"""
    seen = seen or set()
    if path in seen:
        raise Inconclusive("include cycle " + path)
    seen.add(path)
    chunks, buf = [], []
    lines = open(path).read().split("\n")
    i = 0
    while i < len(lines):
        l = lines[i]
        s = l.strip()
        if s.startswith("//@include "):
            if buf:
                chunks.append("\n".join(buf) + "\n")
                buf = []
            chunks.extend(parse_template(os.path.join(CONTRACTS, s.split()[1]), unit, seen))
        elif s.startswith("//@begin "):
            if buf:
                chunks.append("\n".join(buf) + "\n")
                buf = []
            parts = s.split()[1:]
            kind = parts[0]
            args = [p for p in parts[1:] if "=" not in p or p.startswith("impl:")]
            opts = dict(p.split("=", 1) for p in parts[1:] if "=" in p and not p.startswith("impl:"))
            body = []
            i += 1
            while i < len(lines) and lines[i].strip() != "//@end":
                body.append(lines[i])
                i += 1
            if i >= len(lines):
                raise Inconclusive("unterminated region in " + path)
            chunks.append(Region(kind, args, opts, "\n".join(body) + "\n", unit))
        else:
            buf.append(l)
        i += 1
    if buf:
        chunks.append("\n".join(buf) + "\n")
    return chunks


def _pure_renaming(base, cur):
    """base and cur differ only by a consistent renaming of identifiers (new names unused in base) -> {old: new}, else None"""
    if len(base) != len(cur):
        return None
    ren, inv = {}, {}
    used = set(base)
    for a, b in zip(base, cur):
        if a == b:
            if a in ren or a in inv:
                return None
            continue
        if not (re.match(r"^[a-z_][a-z0-9_]*$", a) and re.match(r"^[a-z_][a-z0-9_]*$", b)) or a in lex_keywords() or b in lex_keywords():
            return None
        if ren.get(a, b) != b or inv.get(b, a) != a or b in used:
            return None
        ren[a] = b
        inv[b] = a
    # every occurrence of a renamed identifier must have been renamed
    for a, b in zip(base, cur):
        if a in ren and b != ren[a]:
            return None
    # only LOCAL VARIABLES may be renamed: never a field, method, function, path segment or macro (a spec clause that names a
    # field must keep naming that field), and the identifier must be bound somewhere in the function (let / closure parameter / pattern)
    for name in ren:
        bound = False
        for i, t in enumerate(base):
            if t != name:
                continue
            prev = base[i - 1] if i > 0 else ""
            nxt = base[i + 1] if i + 1 < len(base) else ""
            if prev in (".", "::") or nxt in ("(", "::", "!", "{"):
                return None
            if prev in ("let", "mut", "|", "ref") or (prev in ("(", ",") and nxt in (",", ")", ":", "|")):
                bound = True
        if not bound:
            return None
    return ren or None


def lex_keywords():
    return {"let", "mut", "if", "else", "match", "fn", "self", "return", "for", "in", "while", "loop", "break", "continue", "as", "ref", "move", "true", "false", "pub", "use", "impl", "struct", "enum", "const", "static", "where", "async", "await", "dyn", "crate", "super", "mod", "type", "trait", "unsafe"}


def build_region(r):
    """fills r.out_text, r.changed, r.firings; raises Inconclusive"""
    try:
        if r.kind == "fn":
            path, cont, name = r.args[0], _container(r.args[1]), r.args[2]
            it = source(path).find("fn", name, cont)
            r.item = it
            extra = [x for x in r.opts.get("rules", "").split(",") if x]
            cur = rules.normalise_fn(it.tokens, extra, r.firings, "%s::%s" % (path, r.name))
            for hname, hbody, hself, hwhere in INLINE.get(r.name, []):
                cur, cnt = inline_helper(cur, hname, hbody, hself)
                if cnt:
                    r.firings.append({"rule": "R-autoinline", "where": "%s::%s" % (path, r.name), "before": "%s ( )" % hname, "after": "( " + " ".join(hbody)[:200] + " )",
                                      "note": ("call of a helper function that is not part of the unit (%s) expanded at the call site: { let <params> = <args>; <body> } (the helper has no return / ? / loop and is not recursive)" if isinstance(hself, tuple) else "a constant that is not part of the unit (%s) replaced by its literal value" if hself == "const" else "call of a one-expression helper that is not part of the unit (%s) replaced by its body; exact for a parameterless pure accessor / predicate") % hwhere})
            if "@for@" in cont or "nopub" in r.opts:
                cur = cur[1:]   # trait impl methods carry no visibility
            ann = lex.tokenize(r.body)
            base = erase.erase(ann)
            ren = _pure_renaming(base, cur) if base != cur else None
            if ren:
                # the current text is the proved text with local identifiers renamed consistently: rename them in the annotations too
                ann = [ren.get(t, t) for t in ann]
                base = erase.erase(ann)
                r.firings.append({"rule": "R-rename", "where": "%s::%s" % (path, r.name), "before": " ".join(sorted(ren)), "after": " ".join(ren[k] for k in sorted(ren)),
                                  "note": "local identifiers renamed consistently in /repo: the same renaming is applied to the annotations (alpha-equivalence)"})
            if base == cur and not ren:
                r.out_text = r.body
                r.changed = False
            elif base == cur:
                r.out_text = lex.render(ann, "    ")
                r.changed = True
                r.diff = "identifiers renamed: " + ", ".join("%s -> %s" % (k, ren[k]) for k in sorted(ren))
            else:
                r.dropped = []
                coarse = bool(r.opts.get("_coarse"))
                merged = merge.merge3(base, ann, cur, r.dropped, coarse=coarse)
                merged, r.ghost_completed = merge.complete_ghost_args(ann, merged)
                merged, _np = merge.prune_dangling_ghost(ann, merged)
                try:
                    back = erase.erase(merged)
                except (erase.EraseError, lex.LexError):
                    back = None
                if back != cur and not coarse:
                    # second attempt: treat the whole changed middle as rewritten (annotations inside it are dropped)
                    r.dropped = []
                    merged = merge.merge3(base, ann, cur, r.dropped, coarse=True)
                    merged, r.ghost_completed = merge.complete_ghost_args(ann, merged)
                    merged, _np = merge.prune_dangling_ghost(ann, merged)
                    back = erase.erase(merged)
                if back != cur:
                    raise Inconclusive("erasure check failed after merge for %s:\n%s" % (r.name, _tokdiff(back or [], cur)))
                r.out_text = lex.render(merged, "    ")
                r.changed = True
                r.diff = _tokdiff(base, cur)
        elif r.kind == "type":
            path, cont, kind, name = r.args[0], _container(r.args[1]), r.args[2], r.args[3]
            it = source(path).find(kind, name, cont)
            r.item = it
            drop = [x for x in r.opts.get("drop", "").split(",") if x]
            body_toks = _pubify_struct(_strip_attrs_vis(it.tokens), drop)
            tmpl_lines = r.body.split("\n")
            attrs = []
            for l in tmpl_lines:
                if l.strip().startswith("#["):
                    attrs.append(l)
                elif l.strip():
                    break
            tmpl_item = _strip_attrs_vis(lex.tokenize(r.body))
            cur_item = _strip_attrs_vis(body_toks)
            r.changed = tmpl_item != cur_item
            if drop:
                r.firings.append({"rule": "R-dropfield", "where": "%s::%s" % (path, name), "before": ",".join(drop), "after": "", "note": "fields not needed by any function of this unit are dropped (abstraction)"})
            r.out_text = "\n".join(attrs) + ("\n" if attrs else "") + (r.body[len("\n".join(attrs)):].lstrip("\n") if not r.changed else lex.render(body_toks))
            if r.changed:
                r.diff = _tokdiff(tmpl_item, cur_item)
        elif r.kind == "const":
            path, cont, name = r.args[0], _container(r.args[1]), r.args[2]
            it = source(path).find("const", name, cont)
            r.item = it
            cur = ["pub"] + _strip_attrs_vis(it.tokens)
            ann = lex.tokenize(r.body)
            base = erase.erase(ann)
            if base == cur:
                r.out_text, r.changed = r.body, False
            else:
                r.changed = True
                r.diff = _tokdiff(base, cur)
                if ann[:2] == ["pub", "exec"] or ann[:1] == ["exec"]:
                    # exec const N: T ensures .. { INIT }: keep the annotated header, take the initialiser from /repo
                    k = 0
                    while k < len(ann) and ann[k] not in erase.SPEC_KW:
                        k += 1
                    b = erase._skip_to_body(ann, k)
                    eq = cur.index("=")
                    merged = ann[:b + 1] + cur[eq + 1:-1] + ["}"]
                    if erase.erase(merged) != cur:
                        raise Inconclusive("erasure check failed for const " + name)
                    r.out_text = lex.render(merged)
                else:
                    r.out_text = lex.render(cur)
        else:
            raise Inconclusive("unknown region kind " + r.kind)
    except KeyError as e:
        raise Inconclusive("lost anchor: %s" % e)
    except merge.MergeConflict as e:
        raise Inconclusive("merge conflict in %s: %s" % (r.name, e))
    except (erase.EraseError, lex.LexError) as e:
        raise Inconclusive("cannot process %s: %s" % (r.name, e))


def _tokdiff(a, b):
    import difflib
    sm = difflib.SequenceMatcher(None, a, b, autojunk=False)
    out = []
    for tag, i1, i2, j1, j2 in sm.get_opcodes():
        if tag != "equal":
            ctx = " ".join(a[max(0, i1 - 4):i1])
            out.append("  ... %s  [- %s -] [+ %s +]" % (ctx, " ".join(a[i1:i2]), " ".join(b[j1:j2])))
    return "\n".join(out[:12])


class Built:
    pass


# properties whose clauses are only part of the unit when that property itself is checked (they contain a recorded known
# finding: a clause that fails on the current tree must not make the shared functions 'unverified' for the other properties)
ISOLATED = ("C17",)


def _isolate(chunks, pid):
    def filt(text):
        out = []
        for l in text.split("\n"):
            m = re.search(r"//\s*@(C\d\d)\.", l)
            if m and m.group(1) in ISOLATED and m.group(1) != pid:
                continue
            out.append(l)
        return "\n".join(out)
    for c in chunks:
        if isinstance(c, Region):
            c.body = filt(c.body)
    return [c if isinstance(c, Region) else filt(c) for c in chunks]


def find_trivial_helper(name, type_hint=None):
    """a function `name` of /repo that takes only `self` (or nothing) and whose body is one expression -> (file, container, body tokens, has_self)
    Used to inline helpers that a change introduced (a new accessor / predicate), so that the caller is verified on its real meaning."""
    import glob
    found = []
    for path in sorted(glob.glob(os.path.join(REPO, "src", "**", "*.rs"), recursive=True)):
        rel = os.path.relpath(path, REPO)
        try:
            src = source(rel)
        except Exception:
            continue
        for it in src.items:
            if it.kind != "fn" or it.name != name or it.is_cfg_test():
                continue
            cont = it.container or ""
            if type_hint and cont and type_hint not in cont:
                continue
            toks = rules.apply_rules(list(it.tokens), (), None, "")
            try:
                k = toks.index("fn")
                o = toks.index("(", k)
                c = lex.match_close(toks, o)
            except ValueError:
                continue
            params = toks[o + 1:c]
            while params and params[-1] == ",":
                params.pop()
            if params not in ([], ["&", "self"], ["&", "mut", "self"], ["self"]):
                continue
            b = c + 1
            while b < len(toks) and toks[b] != "{":
                if toks[b] in ("(", "["):
                    b = lex.match_close(toks, b)
                b += 1
            if b >= len(toks):
                continue
            e = lex.match_close(toks, b)
            body = toks[b + 1:e]
            depth0 = []
            i = 0
            while i < len(body):
                if body[i] in lex.OPEN:
                    i = lex.match_close(body, i) + 1
                    continue
                depth0.append(body[i])
                i += 1
            if not body or ";" in depth0 or "return" in body or "?" in depth0 or "await" in body:
                continue
            found.append((rel, cont, body, bool(params)))
    return found[0] if len(found) == 1 else None


def find_block_helper(name):
    """a free function `fn name(p1: T1, ..) [-> R] { body }` of /repo (no self, no generics, no `return` / `?` / `.await` in the body, not recursive)
    -> (file, [(param tokens, type tokens)], body tokens).  Used to expand a helper that a change introduced at its call sites, so that the
    caller is verified on what the helper does (rule R-autoinline, block form): `name(a1, ..)` -> `{ let p1: T1 = a1; ..; body }`."""
    import glob
    found = []
    for path in sorted(glob.glob(os.path.join(REPO, "src", "**", "*.rs"), recursive=True)):
        rel = os.path.relpath(path, REPO)
        try:
            src = source(rel)
        except Exception:
            continue
        for it in src.items:
            if it.kind != "fn" or it.name != name or it.is_cfg_test() or it.container:
                continue
            toks = rules.apply_rules(list(it.tokens), (), None, "")
            try:
                k = toks.index("fn")
                if toks[k + 2] != "(":
                    continue        # generics
                o = k + 2
                c = lex.match_close(toks, o)
            except (ValueError, IndexError):
                continue
            if "async" in toks[:k]:
                continue
            params, cur, i = [], [], o + 1
            while i < c:
                t = toks[i]
                if t in lex.OPEN:
                    e = lex.match_close(toks, i)
                    cur.extend(toks[i:e + 1]); i = e + 1
                    continue
                if t == ",":
                    params.append(cur); cur = []
                else:
                    cur.append(t)
                i += 1
            if cur:
                params.append(cur)
            ps = []
            ok = True
            for pr in params:
                if ":" not in pr or "self" in pr:
                    ok = False; break
                j = pr.index(":")
                ps.append((pr[:j], pr[j + 1:]))
            if not ok:
                continue
            b = c + 1
            while b < len(toks) and toks[b] != "{":
                if toks[b] in ("(", "[", "<"):
                    pass
                b += 1
            if b >= len(toks) or "impl" in toks[c:b] or "where" in toks[c:b]:
                continue
            e = lex.match_close(toks, b)
            body = toks[b + 1:e]
            if any(t in ("return", "?", "await", "loop", "while", "for") for t in body) or name in body:
                continue
            found.append((rel, [(pa, _flat_paths(ty)) for pa, ty in ps], _flat_paths(body)))
    return found[0] if len(found) == 1 else None


def _flat_paths(toks):
    """`crate :: a :: b :: T` -> `T`: a unit is one flat file (module structure is dropped by the extraction)"""
    out, i = [], 0
    while i < len(toks):
        if toks[i] == "crate" and i + 1 < len(toks) and toks[i + 1] == "::":
            i += 2
            while i + 1 < len(toks) and toks[i + 1] == "::" and toks[i][0].islower():
                i += 2
            continue
        out.append(toks[i])
        i += 1
    return out


def find_literal_const(name):
    """a `const NAME: T = <literal arithmetic>;` item of /repo (not in a test module) -> (file, initialiser tokens).
    Used to replace a constant that a change introduced by its value (rule R-autoconst)."""
    import glob
    found = []
    for path in sorted(glob.glob(os.path.join(REPO, "src", "**", "*.rs"), recursive=True)):
        rel = os.path.relpath(path, REPO)
        try:
            src = source(rel)
        except Exception:
            continue
        for it in src.items:
            if it.kind != "const" or it.name != name or it.is_cfg_test():
                continue
            toks = list(it.tokens)
            if "=" not in toks or toks[-1] != ";":
                continue
            init = toks[toks.index("=") + 1:-1]
            if init and all(re.match(r"^(\d[\d_]*(u8|u16|u32|u64|usize|i32|i64)?|[-+*/()])$", t) for t in init):
                found.append((rel, init))
    return found[0] if len(found) == 1 else None


def inline_helper(toks, name, body, has_self):
    if isinstance(has_self, tuple) and has_self[0] == "block":
        params = has_self[1]
        out, i, n = [], 0, 0
        while i < len(toks):
            if toks[i] == name and i + 1 < len(toks) and toks[i + 1] == "(" and not (i > 0 and toks[i - 1] in (".", "fn", "::")):
                c = lex.match_close(toks, i + 1)
                args, cur, k = [], [], i + 2
                while k < c:
                    t = toks[k]
                    if t in lex.OPEN:
                        e = lex.match_close(toks, k)
                        cur.extend(toks[k:e + 1]); k = e + 1
                        continue
                    if t == ",":
                        args.append(cur); cur = []
                    else:
                        cur.append(t)
                    k += 1
                if cur:
                    args.append(cur)
                if len(args) == len(params):
                    out.append("{")
                    for (pat, ty), a in zip(params, args):
                        out += ["let"] + pat + [":"] + ty + ["="] + a + [";"]
                    out += list(body) + ["}"]
                    i = c + 1
                    n += 1
                    continue
            out.append(toks[i])
            i += 1
        return out, n
    if has_self == "const":
        out, n = [], 0
        for i, t in enumerate(toks):
            if t == name and not (i > 0 and toks[i - 1] in (".", "::", "const", "let", "fn")):
                out += ["("] + list(body) + [")"]
                n += 1
            else:
                out.append(t)
        return out, n
    """replace `recv . name ( )` (recv = self or one identifier) / `name ( )` / `Self :: name ( )` by `( body[self := recv] )`"""
    out, i, n = [], 0, 0
    while i < len(toks):
        if has_self and i + 4 < len(toks) + 1 and toks[i + 1:i + 5] == [".", name, "(", ")"] and (toks[i][0].isalpha() or toks[i][0] == "_") and not (i > 0 and toks[i - 1] == "."):
            recv = toks[i]
            out += ["("] + [recv if t == "self" else t for t in body] + [")"]
            i += 5
            n += 1
            continue
        if not has_self and toks[i:i + 3] == [name, "(", ")"] and not (i > 0 and toks[i - 1] in (".", "fn")):
            if out[-2:] == ["Self", "::"]:
                out = out[:-2]
            out += ["("] + list(body) + [")"]
            i += 3
            n += 1
            continue
        out.append(toks[i])
        i += 1
    return out, n


INLINE = {}     # region name -> [(helper name, body tokens, has_self, where)]: helpers inlined on demand (see check::_verify_unit)


def stub_text(r):
    """the template's contract of a function whose current text cannot be processed, as an assumed (external_body) contract"""
    ann = lex.tokenize(r.body)
    k = ann.index("fn")
    i = k
    while i < len(ann):
        t = ann[i]
        if t in ("(", "["):
            i = lex.match_close(ann, i) + 1
            continue
        if t == "{":
            break
        i += 1
    if i >= len(ann):
        raise Inconclusive("cannot find the body of %s in the template" % r.name)
    header = [t for t in ann[:i] if not lex.is_label(t)]
    if "->" in header and "impl" in header[header.index("->"):]:
        raise Inconclusive("%s returns an opaque type: its contract cannot be assumed without its body" % r.name)
    return "    #[verifier::external_body]\n" + lex.render(header, "    ").rstrip("\n") + " { unimplemented!() }\n"


def build(unit, outdir, canary=False, pid=None, coarse=(), stub=None, autostub=False):
    """assemble the unit from the current tree -> Built(path, regions, text)
    stub: {region name: reason}: functions whose current text cannot be processed; their template contract is assumed"""
    tpath = os.path.join(CONTRACTS, unit + ".rs")
    chunks = _isolate(parse_template(tpath, unit), pid)
    regions = [c for c in chunks if isinstance(c, Region)]
    errors = []
    stub = dict(stub or {})
    merge.UNIT_TABLE = merge.merge_tables([merge.ghost_arg_table(lex.tokenize(r.body), raw=True) for r in regions if r.kind == "fn"])
    merge.UNIT_DEFAULTS = {}
    for c in chunks:
        if isinstance(c, str):
            for m in re.finditer(r"^\s*//@ghost_default\s+(\w+)\s+(\d+)\s*:\s*(.*)$", c, re.M):
                toks = lex.tokenize(m.group(3))
                merge.UNIT_DEFAULTS[(m.group(1), int(m.group(2)))] = merge._split_args(["("] + toks + [")"], 0, len(toks) + 1)
    for r in regions:
        try:
            if r.kind == "fn" and r.name in stub:
                r.stubbed = stub[r.name]
            else:
                if r.name in coarse:
                    r.opts["_coarse"] = "1"
                try:
                    build_region(r)
                except Inconclusive as e:
                    if r.kind != "fn" or not autostub:
                        raise
                    # the function is gone, renamed or cannot be merged: assume its contract, the properties it serves are undecided
                    r.stubbed = str(e)[:300]
            if r.stubbed:
                # a function that no longer exists in /repo is left out (whoever still refers to it is stubbed in turn)
                r.out_text = "" if "item not found" in r.stubbed else stub_text(r)
                r.changed = True
                r.diff = "(current text not processed: %s)" % r.stubbed
        except Inconclusive as e:
            r.error = str(e)
            errors.append(str(e))
    if errors:
        raise Inconclusive("; ".join(errors))
    out, line = [], 1
    for c in chunks:
        if isinstance(c, Region):
            txt = c.out_text
            if canary and c.kind == "fn":
                txt = _canary(txt)
            c.line0 = line
            out.append(txt)
            line += txt.count("\n")
            c.line1 = line - 1
        else:
            out.append(c)
            line += c.count("\n")
    text = "".join(out)
    os.makedirs(outdir, exist_ok=True)
    p = os.path.join(outdir, unit.replace("/", "_") + ("_canary" if canary else "") + ".rs")
    with open(p, "w") as f:
        f.write(text)
    b = Built()
    b.path, b.regions, b.text, b.unit = p, regions, text, unit
    return b


def _canary(txt):
    """insert `assert(false);` at the entry of the function body (last top-level block of the region)"""
    toks = lex.tokenize_pos(txt)
    plain = [t for t, _, _ in toks]
    # body = block closed by the last '}'
    j = len(plain) - 1
    while j >= 0 and plain[j] != "}":
        j -= 1
    i = lex.match_open(plain, j)
    pos = toks[i][2]
    return txt[:pos] + " assert(false); /*canary*/ " + txt[pos:]


TRUST_RE = re.compile(r"TRUSTED:|assume_specification|external_body|\baxiom\b|assume\s*\(|admit\s*\(|external_type_specification|#\[verifier::external\]|uninterp\s+spec")


def trusted_scan(text):
    """mechanical scan of the emitted unit for assumptions -> list of 'kind: name'"""
    out = []
    lines = text.split("\n")
    for k, l in enumerate(lines):
        if l.strip().startswith("//") and "TRUSTED:" not in l:
            continue
        m = TRUST_RE.search(l)
        if not m:
            continue
        kind = m.group(0).strip(" (")
        ctx = l.strip()
        if kind in ("external_body", "external_type_specification", "#[verifier::external]"):
            # name is on one of the next lines
            for l2 in lines[k:k + 4]:
                m2 = re.search(r"\b(fn|struct|enum|impl)\s+([A-Za-z0-9_:<>]+)", l2)
                if m2:
                    ctx = m2.group(0)
                    break
        out.append("%s: %s" % (kind, ctx[:140]))
    return sorted(set(out))


def run_verus(built, seed=0, rlimit=None, timeout=900):
    cmd = ["verus", built.path, "--output-json", "--time-expanded", "--error-format=json", "--multiple-errors", "40"]
    if seed:
        cmd += ["--smt-option", "smt.random_seed=%d" % seed]
    if rlimit:
        cmd += ["--rlimit", str(rlimit)]
    if not os.path.exists(built.path):
        # the scratch directory of the property that built this (cached) unit has been removed meanwhile
        os.makedirs(os.path.dirname(built.path), exist_ok=True)
        with open(built.path, "w") as f:
            f.write(built.text)
    t0 = time.time()
    try:
        r = subprocess.run(cmd, capture_output=True, text=True, timeout=timeout, cwd=os.path.dirname(built.path))
    except subprocess.TimeoutExpired:
        raise Inconclusive("verus timeout on unit " + built.unit)
    wall = time.time() - t0
    try:
        res = json.loads(r.stdout)
    except Exception:
        res = None
    diags = []
    for l in r.stderr.split("\n"):
        l = l.strip()
        if l.startswith("{"):
            try:
                d = json.loads(l)
            except Exception:
                continue
            if d.get("level") in ("error", "warning", "note"):
                diags.append(d)
    return res, diags, wall, " ".join(cmd), r.stderr


def hard_error_regions(built, diags):
    """regions hit by compile (non-verification) errors -> (set of fn-region names, all_located)"""
    names, located = set(), True
    for d in diags:
        if d.get("level") != "error" or d.get("message", "").startswith("aborting due to"):
            continue
        msg = d.get("message", "").lower()
        if any(k in msg for k in ("postcondition", "precondition", "invariant", "assertion fail", "overflow", "underflow", "decreases", "rlimit", "resource limit")):
            continue
        hit = False
        for sp in d.get("spans", []):
            if not sp.get("is_primary"):
                continue
            r = region_at(built, sp["line_start"])
            if r is not None and r.kind == "fn":
                names.add(r.name)
                hit = True
        if not hit:
            located = False
    return names, located


def _serves(r, pid):
    """does the fn region carry a clause of pid (label `@Cxx.` in its text, or props=..; no props and no labels: every property)"""
    if pid == "C14":
        return True     # panic-freedom is an obligation of every function under contract
    labs = set(m.split(".")[0] for m in re.findall(r"@(C\d\d\.[A-Za-z0-9_]+)", r.body))
    props = set(r.props() or [])
    if not labs and not props:
        return True
    return pid in labs or pid in props


def dependents(built, stubbed_name, pid):
    """fn regions that carry a clause of pid and (transitively) call the stubbed function, or are it"""
    fns = [r for r in built.regions if r.kind == "fn"]
    short = {}
    for r in fns:
        short.setdefault(r.args[2], []).append(r.name)
    calls = {}
    for r in fns:
        # the current text decides who calls whom (a function that no longer calls a removed helper does not depend on it)
        toks = lex.tokenize(r.out_text if r.out_text is not None else r.body)
        out = set()
        for i in range(len(toks) - 1):
            if toks[i + 1] == "(" and toks[i] in short and not (i > 0 and toks[i - 1] == "fn"):
                out.update(short[toks[i]])
        calls[r.name] = out
    reach = {stubbed_name}
    changed = True
    while changed:
        changed = False
        for f, cs in calls.items():
            if f not in reach and cs & reach:
                reach.add(f)
                changed = True
    return sorted(r.name for r in fns if r.name in reach and _serves(r, pid))


def region_at(built, line):
    for r in built.regions:
        if r.line0 <= line <= r.line1:
            return r
    return None


def enclosing_fn(built, line):
    """name of the fn/proof fn containing `line` in the emitted text (for code outside regions)"""
    lines = built.text.split("\n")
    for k in range(min(line, len(lines)) - 1, -1, -1):
        m = re.match(r"\s*(?:pub\s+)?(?:open\s+|closed\s+)?(?:broadcast\s+)?(?:proof\s+|spec\s+|exec\s+)?(?:async\s+)?fn\s+([A-Za-z0-9_]+)", lines[k])
        if m:
            return m.group(1)
    return None


def label_near(built, l0, l1):
    """label comment on the failing lines, or on the closest preceding lines of the same clause"""
    lines = built.text.split("\n")
    for k in range(l0 - 1, min(l1, len(lines))):
        m = re.findall(r"//\s*@([A-Za-z0-9_.:#\-]+)|\s@(C\d\d\.[A-Za-z0-9_]+)", lines[k])
        if m:
            return " ".join(a or b for a, b in m)
    return None


def label_from_template(built, reg, l0, l1):
    """the text of a changed region is re-rendered (one clause per line), so the label that followed a group of clauses on one
    template line no longer sits on the failing clause's line: find the clause in the template and take the label of its line"""
    if reg is None or not getattr(reg, "body", None):
        return None
    lines = built.text.split("\n")
    want = [t for t in lex.tokenize("\n".join(lines[l0 - 1:l1])) if not lex.is_label(t)]
    while want and want[-1] == ",":
        want.pop()
    if len(want) < 3:
        return None
    toks = lex.tokenize_pos(reg.body)
    plain = [t for t, _, _ in toks]
    n = len(want)
    for i in range(len(plain) - n + 1):
        if plain[i:i + n] == want:
            end = toks[i + n - 1][2]
            eol = reg.body.find("\n", end)
            line = reg.body[reg.body.rfind("\n", 0, end) + 1:(eol if eol >= 0 else len(reg.body))]
            m = re.findall(r"//\s*@([A-Za-z0-9_.:#\-]+)|\s@(C\d\d\.[A-Za-z0-9_]+)", line)
            if m:
                return " ".join(a or b for a, b in m)
            return None
    return None


# stand-ins of the units whose precondition models a panic of the real call
PANIC_FNS = ("vx_assert", "flip_bit", "vx_select_idle")


class Failure:
    def __init__(self, unit, fn, kind, label, message, rendered, in_region, props):
        # a clause may serve several properties: `// @C19.x @C15.y`; the first label names the obligation
        self.labels = label.split() if label else []
        label = self.labels[0] if self.labels else None
        self.unit, self.fn, self.kind, self.label = unit, fn, kind, label
        self.message, self.rendered, self.in_region, self.props = message, rendered, in_region, props
        self.panic = False
        self.maybe_panic = False

    def obligation(self):
        return "%s::%s#%s" % (self.unit, self.fn, self.label or self.kind)


def classify(built, res, diags):
    """-> (failures, hard_errors, rlimit_hits)"""
    failures, hard, rlimits = [], [], []
    for d in diags:
        if d.get("level") != "error":
            continue
        msg = d.get("message", "")
        if msg.startswith("aborting due to"):
            continue
        spans = d.get("spans", [])
        if "rlimit" in msg.lower() or "resource limit" in msg.lower() or "timed out" in msg.lower():
            rlimits.append(msg + " @ " + ",".join(str(s.get("line_start")) for s in spans))
            continue
        kind = None
        for key, k in (("postcondition", "postcondition"), ("post-condition", "postcondition"), ("pre-condition", "precondition"), ("precondition", "precondition"), ("invariant", "invariant"),
                       ("assertion fail", "assertion"), ("decreases clause", None), ("decreases", "decreases"), ("overflow", "arithmetic"),
                       ("underflow", "arithmetic"), ("index", "bounds"), ("unwrap", "precondition"), ("possible", "arithmetic"),
                       ("recommendation", None)):
            if key in msg.lower():
                kind = k
                break
        if kind is None:
            # not a verification failure: rustc / VIR error
            hard.append(d.get("rendered") or msg)
            continue
        prim = [s for s in spans if s.get("is_primary")] or spans
        clause = None
        for s in spans:
            if s.get("label", "") and ("failed this" in s["label"] or "failed precondition" in s["label"]):
                clause = s
        site = prim[0] if prim else None
        where = clause or site
        label = label_near(built, where["line_start"], where["line_end"]) if where else None
        if label is None and clause is not None and site is not None and site is not clause:
            # a precondition without a label of its own: the label on the call site names the obligation
            label = label_near(built, site["line_start"], site["line_end"])
        # the function in which the obligation arises: the site (primary span), not the callee clause
        site_line = None
        for s in spans:
            if s is not clause:
                site_line = s["line_start"]
        if kind == "postcondition":
            # both spans are in the failing function
            site_line = site_line or (clause or site)["line_start"]
        if site_line is None and site:
            site_line = site["line_start"]
        reg = region_at(built, site_line) if site_line else None
        if label is None and where is not None:
            wreg = region_at(built, where["line_start"])
            if wreg is not None and wreg.changed and wreg.kind == "fn":
                label = label_from_template(built, wreg, where["line_start"], where["line_end"])
        fn = reg.name if reg else (enclosing_fn(built, site_line) if site_line else "?")
        fl = Failure(built.unit, fn, kind, label, msg, d.get("rendered", ""), reg is not None,
                     reg.props() if reg else None)
        # panic class (C14): an obligation whose failure means that the executable code can panic -- arithmetic overflow, an index
        # out of bounds, or the precondition of a std function (unwrap / expect / index / insert ...: the clause lives in vstd) or of
        # one of the unit's stand-ins for a panicking call
        callee = enclosing_fn(built, clause["line_start"]) if (clause is not None and clause.get("file_name") == built.path) else None
        # an operator on a type without an operator spec (vstd std_specs/ops.rs: add_req / mul_req ..) is an unsupported operation, not a
        # known panic: undecided for C14, never an alarm
        in_ops = clause is not None and str(clause.get("file_name", "")).endswith("std_specs/ops.rs")
        fl.maybe_panic = kind == "precondition" and in_ops
        fl.panic = kind in ("arithmetic", "bounds") or (kind == "precondition" and clause is not None and not in_ops and (clause.get("file_name") != built.path or callee in PANIC_FNS))
        failures.append(fl)
    return failures, hard, rlimits


def breakdown(res):
    out = []
    if not res:
        return out
    for m in res.get("times-ms", {}).get("smt", {}).get("smt-run-module-times", []):
        for f in m.get("function-breakdown", []):
            out.append(f)
    return out


def props_of_fn(built, fn):
    """`//@props C10,C12` on the line before a lemma/helper outside regions"""
    lines = built.text.split("\n")
    pat = re.compile(r"\bfn\s+" + re.escape(fn.split("::")[-1]) + r"\b")
    for k, l in enumerate(lines):
        if pat.search(l):
            for q in range(k - 1, max(-1, k - 4), -1):
                m = re.match(r"\s*//@props\s+(\S+)", lines[q])
                if m:
                    return m.group(1).split(",")
                if lines[q].strip() and not lines[q].strip().startswith("//"):
                    break
            return None
    return None


def sample_obligations(built, pid, limit=6):
    """a few labelled clauses of this property written out (function, clause text, label)"""
    out = []
    lines = built.text.split("\n")
    for k, l in enumerate(lines):
        m = re.search(r"//\s*@(" + re.escape(pid) + r"\.[A-Za-z0-9_.:#\-]+)", l)
        if m:
            fn = None
            r = region_at(built, k + 1)
            fn = r.name if r else enclosing_fn(built, k + 1)
            out.append({"function": fn, "clause": l.split("//")[0].strip().rstrip(","), "label": m.group(1)})
    # spread the samples over different functions
    seen, picked = set(), []
    for o in out:
        if o["function"] not in seen:
            picked.append(o)
            seen.add(o["function"])
    return (picked + [o for o in out if o not in picked])[:limit]


# ---------------------------------------------------------------------------------------------
# contract links: a stand-in used in one unit must carry (a subset of) the contract PROVED for the real function elsewhere
def fn_clauses(text, impl_marker, fn_name):
    """-> {'requires': [clause strings], 'ensures': [...]} of `fn fn_name` following `impl_marker` in text (token-normalised)"""
    k = text.find(impl_marker)
    if k < 0:
        return None
    m = re.search(r"\bfn\s+" + re.escape(fn_name) + r"\b", text[k:])
    if not m:
        return None
    toks = lex.tokenize(text[k + m.start():])
    toks = [t for t in toks if not lex.is_label(t)]
    out = {"requires": [], "ensures": []}
    i = 0
    # skip to end of parameter list
    while toks[i] != "(":
        i += 1
    i = lex.match_close(toks, i) + 1
    cur = None
    clause = []
    depth = 0
    while i < len(toks):
        t = toks[i]
        if depth == 0 and t in ("requires", "ensures", "decreases", "{"):
            if cur in out and clause:
                out[cur].append(" ".join(clause))
            clause = []
            if t == "{":
                break
            cur = t
            i += 1
            continue
        if t in ("(", "[", "{"):
            depth += 1
        elif t in (")", "]", "}"):
            depth -= 1
        if depth == 0 and t == ",":
            if cur in out and clause:
                out[cur].append(" ".join(clause))
            clause = []
        else:
            clause.append(t)
        i += 1
    return out


LINKS = [
    # (stub file, impl marker, fn, proved file, impl marker, fn, normalisation of the stub text)
    ("inc/world_lookup_standin.rs", "impl TableLookup", "recv_response", "inc/lookup_body.rs", "impl TableLookup", "recv_response", {}),
    ("inc/world_lookup_standin.rs", "impl TableLookup", "recv_timeout", "inc/lookup_body.rs", "impl TableLookup", "recv_timeout", {}),
    ("inc/world_lookup_standin.rs", "impl TableLookup", "recv_finished", "inc/lookup_body.rs", "impl TableLookup", "recv_finished", {}),
    ("inc/world_lookup_standin.rs", "impl TableLookup", "new", "inc/lookup_body.rs", "impl TableLookup", "new", {}),
    ("inc/world_core.rs", "impl<T> Timer<T>", "schedule_in", "inc/timer_body.rs", "impl<T> Timer<T>", "schedule_in", {"pending @": "pending ( )", "key . deadline . t as int == tclock ( ) + dur_nanos ( deadline )": "key . deadline . t as int == tclock ( ) + dur_nanos ( deadline )"}),
    ("inc/world_core.rs", "impl<T> Timer<T>", "cancel", "inc/timer_body.rs", "impl<T> Timer<T>", "cancel", {"pending @": "pending ( )"}),
    ("inc/world_core.rs", "impl<T> Timer<T>", "is_empty", "inc/timer_body.rs", "impl<T> Timer<T>", "is_empty", {"pending @": "pending ( )"}),
    ("inc/world_core.rs", "impl<T> Timer<T>", "new", "inc/timer_body.rs", "impl<T> Timer<T>", "new", {"pending @": "pending ( )"}),
]


def check_links():
    """-> list of problems (empty = every stand-in clause is a proved clause and no proved precondition is dropped,
    except preconditions listed as assumed)"""
    problems = []
    assumed_pre = {"old ( self ) . next_id < u64 :: MAX"}   # ASSUMED: fewer than 2^64 timeouts (documented)
    for sf, sm, fn, pf, pm, pfn, norm in LINKS:
        st = open(os.path.join(CONTRACTS, sf)).read()
        pt = open(os.path.join(CONTRACTS, pf)).read()
        a, b = fn_clauses(st, sm, fn), fn_clauses(pt, pm, pfn)
        if a is None or b is None:
            problems.append("link %s::%s: function not found" % (sf, fn))
            continue
        def nz(c):
            for x, y in norm.items():
                c = c.replace(x, y)
            return c
        proved = set(b["ensures"])
        for c in a["ensures"]:
            if nz(c) not in proved:
                problems.append("stand-in %s::%s ensures `%s` which is not a clause proved in %s" % (sf, fn, c[:90], pf))
        have = set(nz(c) for c in a["requires"])
        for c in b["requires"]:
            if c not in have and c not in assumed_pre:
                problems.append("stand-in %s::%s drops the proved precondition `%s`" % (sf, fn, c[:90]))
    return problems
