"""Catalogue of rewrite rules applied to the repository text before verification (DESIGN §2.3).

A rule is (name, pattern, replacement, note); pattern/replacement are token strings, `$x` is a
metavariable matching a bracket-balanced token run (minimal: it stops where the next literal
pattern token matches at depth 0).  Every firing is logged with before/after text.
Nothing else may change executable text: the erasure check compares the verified text with the
output of these rules token for token.
"""
from . import lex

RULES = [
    ("R-trace", "tracing :: $m ! ( $a ) ;", "", "tracing statement dropped (no effect on verified state)"),
    ("R-trace", "tracing :: $m ! ( $a )", "( )", "tracing expression -> unit"),
    ("R-assert", "assert_eq ! ( $a , $b ) ;", "vx_assert ( $a == $b ) ;", "runtime assertion becomes a proof obligation"),
    ("R-assert", "assert ! ( $a ) ;", "vx_assert ( $a ) ;", "runtime assertion becomes a proof obligation"),
    ("R-pos", "self . nodes . iter ( ) . position ( $c )", "vx_position ( & self . nodes , $c )", "Iterator::position has no vstd spec; verified helper"),
    ("R-twc", "self . expires . iter ( ) . take_while ( $c ) . count ( )", "vx_take_while_count ( & self . expires , $c )", "take_while/count have no vstd spec; verified helper"),
    ("R-any", "items . iter ( ) . any ( $c )", "vx_any ( items , $c )", "Iterator::any postcondition unusable; verified helper"),
    ("R-drain", "for $x in self . expires . drain ( 0 .. $n ) {", "let drained = vx_drain_prefix ( & mut self . expires , $n ) ; for $x in drained {", "Vec::drain(0..n) stand-in (trusted contract); exact because the loop body cannot touch the Vec while the Drain lives"),
    ("R-entry", "match self . storage . entry ( $k ) { Entry :: Occupied ( mut occ ) => occ . get_mut ( ) . push ( $x ) , Entry :: Vacant ( vac ) => { vac . insert ( vec ! [ $y ] ) ; } } ;", "vx_entry_push ( & mut self . storage , $k , $x ) ;", "entry()/Occupied/Vacant push idiom -> verified helper (via get_mut/insert)"),
    ("R-eager", "self . storage . get ( info_hash ) . into_iter ( ) . flatten ( ) . map ( $c )", "vx_opt_vec_map ( self . storage . get ( info_hash ) , $c )", "lazy Option<&Vec>.into_iter().flatten().map(f) -> eager Vec with the same element sequence (Flatten unsupported)"),
    ("R-fcollect", "self . active_stores . find_items ( & g . info_hash ) . filter ( $c ) . collect ( )", "vx_filter_collect ( self . active_stores . find_items ( & g . info_hash ) , $c )", "iterator.filter(f).collect() over the eager find_items result -> verified helper with the exact filter semantics"),
    ("R-eager", "-> impl Iterator < Item = SocketAddr > + 'a", "-> Vec < SocketAddr >", "return type of the eager stand-in"),
    ("R-enum", "for ( $i , $x ) in ( $r ) . enumerate ( ) {", "let mut vx_n : usize = 0 ; for $x in $r { let $i = vx_n ; vx_n += 1 ;", "Enumerate unsupported: explicit counter (same index sequence)"),
    ("R-shuffle", "message_ids . shuffle ( & mut rand :: thread_rng ( ) ) ;", "vx_shuffle ( & mut message_ids , & mut rand :: thread_rng ( ) ) ;", "rand SliceRandom::shuffle stand-in (trusted: permutes in place)"),
    ("R-shuffle", "action_ids . shuffle ( & mut rand :: thread_rng ( ) ) ;", "vx_shuffle ( & mut action_ids , & mut rand :: thread_rng ( ) ) ;", "rand SliceRandom::shuffle stand-in (trusted: permutes in place)"),
    ("R-abs", "for ( _ , tx ) in self . bootstrap_txs . drain ( ) { tx . send ( ( ) ) . unwrap_or ( ( ) ) }", "vx_notify_all ( & mut self . bootstrap_txs ) ;", "ABSTRACTION: notifying bootstrap waiters (HashMap::drain + oneshot) replaced by an opaque stand-in; the loop is not verified"),
    ("R-fold", "nodes . iter ( ) . filter ( $c ) . fold ( $i , $f )", "vx_fold ( nodes . iter ( ) . filter ( $c ) , $i , $f )", "Iterator::fold has no vstd spec -> verified helper with std's definition (loop over next(), accumulator threaded through the closure)"),
    ("R-copied", ". filter ( $c ) . copied ( )", ". filter ( $c ) . map ( | vx_x | * vx_x )", "Iterator::copied has no vstd spec -> its definition map(|x| *x)"),
    ("R-refpat", "for & mut ( ref mut $a , ref mut $b ) in", "for ( $a , $b ) in", "explicit `&mut (ref mut a, ref mut b)` pattern -> the default-binding-mode form `(a, b)` (same bindings by RFC 2005; Verus has no ref patterns)"),
    ("R-foriter", "for node in unsorted_nodes {", "let mut vx_it = unsorted_nodes ; loop { let vx_nx = vx_it . next ( ) ; if vx_nx . is_none ( ) { break ; } let node = vx_nx . unwrap ( ) ;", "for over a generic iterator -> its definition (loop over next() until None)"),
    ("R-foriter", "for ( src , dst ) in sorted_nodes . zip ( $z ) {", "let mut vx_it = sorted_nodes . zip ( $z ) ; loop { let vx_nx = vx_it . next ( ) ; if vx_nx . is_none ( ) { break ; } let ( src , dst ) = vx_nx . unwrap ( ) ;", "for over a generic iterator -> its definition (loop over next() until None)"),
    ("R-abs", "let mut assorted_iter = assorted_bucket . iter ( ) . peekable ( ) ; $rest }", "vx_abs_assorted ( buckets , self_node_id ) }", "ABSTRACTION: the tail of precompute_assorted_nodes (peekable + enumerate over the last bucket) replaced by an opaque stand-in; only the early return for a full-depth table is verified"),
    ("R-clpat", ". filter ( | ( $pat ) | $b )", ". filter ( | p | { let ( $pat ) = p ; $b } )", "closure pattern parameter -> named parameter + leading let (Verus needs a named parameter to state the closure's ensures)"),
    ("R-clpat", ". map ( | ( $pat ) | $b )", ". map ( | p | { let ( $pat ) = p ; $b } )", "closure pattern parameter -> named parameter + leading let"),
    ("R-clpat", ". any ( | ( $pat ) | $b )", ". any ( | p | { let ( $pat ) = p ; $b } )", "closure pattern parameter -> named parameter + leading let"),
    ("R-clpat", ". binary_search_by ( | ( $pat ) | $b )", ". binary_search_by ( | p | { let ( $pat ) = p ; $b } )", "closure pattern parameter -> named parameter + leading let"),
    ("R-extconst", "SocketAddr :: from ( ( Ipv4Addr :: UNSPECIFIED , 0 ) )", "vx_unspecified_addr ( )", "associated const of an external type (unsupported by Verus) -> opaque stand-in returning a SocketAddr (the value is a placeholder for unused slots)"),
    ("R-ordmin", "( bootstrap_attempt + 1 ) . min ( 9 )", "vx_min_u64 ( bootstrap_attempt + 1 , 9 )", "Ord::min is a provided trait method (no assume_specification possible): verified helper returning the smaller argument"),
    ("R-ordmax", "NODE_TIMEOUT . max ( $b )", "vx_duration_max ( NODE_TIMEOUT , $b )", "Ord::max is a provided trait method (Verus accepts no assume_specification for it): stand-in returning one of its arguments"),
    ("R-foriter", "for ( node , dist_to_beat ) in nodes {", "let mut vx_it = nodes ; loop { let vx_nx = vx_it . next ( ) ; if vx_nx . is_none ( ) { break ; } let ( node , dist_to_beat ) = vx_nx . unwrap ( ) ;", "for over a generic iterator -> its definition (loop over next() until None); Verus for-loops support neither generic iterators nor `continue`"),
    ("R-foriter", "for node_info in self . all_sorted_nodes . iter_mut ( ) $rest {", "let mut vx_it = self . all_sorted_nodes . iter_mut ( ) $rest ; loop { let vx_nx = vx_it . next ( ) ; if vx_nx . is_none ( ) { break ; } let node_info = vx_nx . unwrap ( ) ;", "for over an iterator adapter chain -> its definition (loop over next() until None); Verus for-loops do not support `continue`"),
    ("R-foriter", "for node in table . lock ( ) . unwrap ( ) . closest_nodes ( target_id ) $rest {", "let mut vx_it = table . lock ( ) . unwrap ( ) . closest_nodes ( target_id ) $rest ; loop { let vx_nx = vx_it . next ( ) ; if vx_nx . is_none ( ) { break ; } let node = vx_nx . unwrap ( ) ;", "for over an iterator adapter chain -> its definition (loop over next() until None)"),
    ("R-forvec", "for node in nodes {", "let mut vx_i : usize = 0 ; while vx_i < nodes . len ( ) { let node = nodes [ vx_i ] ; vx_i += 1 ;", "for over a Vec of Copy items -> indexed while loop with the same element sequence (Verus for-loops do not support `continue`)"),
    ("R-pin", "pin ! ( $e )", "$e", "pin! dropped: under the sequential reading (R-deasync) the future has run to completion where it is created"),
    ("R-pending", "std :: future :: pending :: < ( ) > ( )", "vx_pending ( )", "a future that never resolves -> stand-in that never returns (postcondition false)"),
    ("R-chain", "router_addresses . iter ( ) . chain ( self . starting_nodes . iter ( ) )", "vx_chain ( router_addresses , & self . starting_nodes )", "HashSet::iter + Iterator::chain -> eager stand-in (trusted: every element of the first set once, then every element of the second set once)"),
    ("R-chain", "router_addresses . iter ( ) . chain ( self . starting_nodes . difference ( router_addresses ) )", "vx_chain_difference ( router_addresses , & self . starting_nodes )", "HashSet::iter + HashSet::difference + Iterator::chain -> eager stand-in (trusted: every element of the first set once, then every element of the second set that is not in the first, once)"),
    ("R-inline", "split_bucket . iter ( )", "split_bucket . nodes . iter ( )", "one-expression accessor Bucket::iter inlined"),
    ("R-inline", "bucket . iter ( )", "bucket . nodes . iter ( )", "one-expression accessor Bucket::iter inlined"),
]

def _select_rule(toks, log, where):
    """R-select: tokio::select! { pat = fut [, if cond] => handler, ... }  ->  a nondeterministic choice between the enabled arms.
    { let vx_sel = vx_select ( ) ; if vx_sel == 0 && ( cond0 ) { let pat0 = fut0 ; handler0 } else if ... else { vx_select_idle ( ( cond0 ) || ... ) ; } }
    Over-approximation: any enabled arm may complete (or none: a stutter step); select! panics when every arm is disabled,
    which becomes the precondition of vx_select_idle."""
    out, i = [], 0
    while i < len(toks):
        if toks[i] == "select" and toks[i + 1:i + 3] == ["!", "{"]:
            close = lex.match_close(toks, i + 2)
            body = toks[i + 3:close]
            arms, j = [], 0
            while j < len(body):
                def upto(stops, j):
                    k = j
                    while k < len(body):
                        if body[k] in stops:
                            return k
                        if body[k] in lex.OPEN:
                            k = lex.match_close(body, k) + 1
                            continue
                        k += 1
                    return k
                e = upto(("=",), j)
                pat = body[j:e]
                f = upto((",", "=>"), e + 1)
                fut = body[e + 1:f]
                cond = ["true"]
                if body[f] == ",":
                    if body[f + 1] != "if":
                        raise ValueError("select arm without handler")
                    g = upto(("=>",), f + 2)
                    cond = body[f + 2:g]
                    f = g
                h = f + 1
                if body[h] == "{":
                    hc = lex.match_close(body, h)
                    handler = body[h:hc + 1]
                    j = hc + 1
                else:
                    hc = upto((",",), h)
                    handler = ["{"] + body[h:hc] + [";", "}"]
                    j = hc
                if j < len(body) and body[j] == ",":
                    j += 1
                arms.append((pat, fut, cond, handler))
            new = ["{", "let", "vx_sel", "=", "vx_select", "(", ")", ";"]
            for n, (pat, fut, cond, handler) in enumerate(arms):
                new += (["else"] if n else []) + ["if", "vx_sel", "==", str(n), "&&", "("] + cond + [")", "{", "let"] + pat + ["="] + fut + [";"] + handler + ["}"]
            disj = []
            for n, (pat, fut, cond, handler) in enumerate(arms):
                disj += (["||"] if n else []) + ["("] + cond + [")"]
            new += ["else", "{", "vx_select_idle", "("] + disj + [")", ";", "}", "}"]
            if log is not None:
                log.append({"rule": "R-select", "where": where, "before": " ".join(toks[i:close + 1])[:400], "after": " ".join(new)[:400],
                            "note": "select! -> nondeterministic choice between the enabled arms (any enabled arm may complete, or none); 'all arms disabled' (a panic in tokio) is the precondition of vx_select_idle"})
            out.extend(new)
            i = close + 1
        else:
            out.append(toks[i])
            i += 1
    return out


# rules only applied when a region asks for them (rules=R-deasync,...)
OPT_RULES = {
    "R-select": [_select_rule],
    "R-mutself": [("R-mutself", "( mut self ,", "( & mut self ,", "`mut self` (unsupported by Verus) read as an exclusive borrow: the body never moves out of self"),
                  ("R-mutself", "( mut self )", "( & mut self )", "`mut self` (unsupported by Verus) read as an exclusive borrow: the body never moves out of self")],
    "R-deasync": [
        ("R-deasync", "async fn", "fn", "async dropped (sequential reading of .await)"),
        ("R-deasync", ". await", "", "await dropped"),
    ],
}


def _match(pat, toks, i):
    """try to match pattern at toks[i]; return (end, bindings) or None"""
    b = {}
    pi, ti = 0, i
    n = len(toks)
    while pi < len(pat):
        p = pat[pi]
        if p.startswith("$"):
            nextlit = pat[pi + 1] if pi + 1 < len(pat) else None
            start = ti
            while True:
                if ti >= n:
                    return None
                t = toks[ti]
                if nextlit is not None and t == nextlit:
                    break
                if t in lex.OPEN:
                    try:
                        ti = lex.match_close(toks, ti) + 1
                    except lex.LexError:
                        return None
                    continue
                if t in lex.CLOSE:
                    return None
                ti += 1
            b[p] = toks[start:ti]
            pi += 1
            continue
        if ti >= n or toks[ti] != p:
            return None
        pi += 1
        ti += 1
    return ti, b


def apply_rules(toks, extra=(), log=None, where=""):
    rules = list(RULES)
    for name in extra:
        rules = OPT_RULES[name] + rules
    for rule in rules:
        if callable(rule):
            toks = rule(toks, log, where)
            continue
        name, pat, rep, note = rule
        pat_t, rep_t = pat.split(), rep.split()
        i = 0
        out = []
        while i < len(toks):
            m = _match(pat_t, toks, i)
            if m:
                end, b = m
                new = []
                for r in rep_t:
                    new.extend(b[r] if r.startswith("$") else [r])
                if log is not None:
                    log.append({"rule": name, "where": where, "before": " ".join(toks[i:end]), "after": " ".join(new), "note": note})
                out.extend(new)
                i = end
            else:
                out.append(toks[i])
                i += 1
        toks = out
    return toks


def normalise_fn(item_tokens, extra=(), log=None, where=""):
    """repo fn item tokens -> normalised tokens: visibility replaced by `pub`, catalogue rules applied."""
    toks = list(item_tokens)
    # R-pub: strip visibility
    i = 0
    if toks[0] == "pub":
        i = 1
        if toks[1] == "(":
            i = lex.match_close(toks, 1) + 1
    toks = ["pub"] + toks[i:]
    return apply_rules(toks, extra, log, where)
