"""developer helper: python3 -m vx.dev <unit> [--canary] : build the unit from /repo and run verus, print diagnostics"""
import sys, json
from . import unit as U

def main():
    name = sys.argv[1]
    canary = "--canary" in sys.argv
    pid = sys.argv[sys.argv.index("--prop") + 1] if "--prop" in sys.argv else None
    try:
        b = U.build(name, "/tmp/vx/scratch", canary=canary, pid=pid)
    except U.Inconclusive as e:
        print("INCONCLUSIVE:", e); sys.exit(2)
    for r in b.regions:
        if r.changed: print("changed region:", r.kind, r.name, "\n", getattr(r, "diff", ""))
        for f in r.firings: print("  rule", f["rule"], "in", f["where"], ":", f["before"][:80], "=>", f["after"][:80])
    res, diags, wall, cmd, stderr = U.run_verus(b)
    print(cmd, "%.1fs" % wall)
    if res: print(res["verification-results"])
    fails, hard, rl = U.classify(b, res, diags)
    for h in hard: print("HARD:", h)
    for r_ in rl: print("RLIMIT:", r_)
    for f in fails:
        print("FAIL", f.obligation(), "|", f.message, "| region" if f.in_region else "| outside")
        if "-v" in sys.argv: print(f.rendered)
    if not res: print(stderr[-3000:])
    bd = U.breakdown(res)
    slow = sorted(bd, key=lambda f: -f["time-micros"])[:5]
    print("slowest:", [(f["function"], f["time-micros"]//1000) for f in slow])
main()
