"""Item-level extractor: finds named items (fn, struct, enum, const, type, impl methods) in a
Rust source file by walking the token stream with bracket matching (no regex over Rust)."""
import hashlib
from . import lex

ITEM_KW = {"fn", "struct", "enum", "const", "static", "type", "impl", "mod", "use", "trait", "union", "macro_rules", "extern"}


class Item:
    def __init__(self, kind, name, container, toks, start, end, attrs, src):
        self.kind, self.name, self.container = kind, name, container
        self.toks = toks            # (tok,start,end) of the item without attributes
        self.start, self.end = start, end   # byte offsets incl. attributes
        self.attrs = attrs          # list of attribute token lists
        self.src = src

    @property
    def text(self):
        return self.src[self.toks[0][1]:self.toks[-1][2]]

    @property
    def tokens(self):
        return [t for t, _, _ in self.toks]

    def line_span(self):
        a = self.src.count("\n", 0, self.toks[0][1]) + 1
        b = self.src.count("\n", 0, self.toks[-1][2]) + 1
        return a, b

    def sha(self):
        return hashlib.sha256(self.text.encode()).hexdigest()

    def is_cfg_test(self):
        for a in self.attrs:
            s = "".join(a)
            if s.startswith("#[cfg(test)") or s == "#[test]":
                return True
        return False


def _skip_attrs(toks, i):
    attrs = []
    while i < len(toks) and toks[i][0] == "#":
        j = i + 1
        if toks[j][0] == "!":
            j += 1
        k = lex.match_close([t for t, _, _ in toks], j)
        attrs.append([t for t, _, _ in toks[i:k + 1]])
        i = k + 1
    return i, attrs


def parse_items(toks, src, container=""):
    """toks: list of (tok,start,end) at one nesting level -> list of Item (recursing into impl)."""
    plain = [t for t, _, _ in toks]
    items = []
    i, n = 0, len(toks)
    while i < n:
        item_start = i
        i, attrs = _skip_attrs(toks, i)
        if i >= n:
            break
        s = i
        # visibility and qualifiers
        while i < n:
            if plain[i] == "pub":
                i += 1
                if i < n and plain[i] == "(":
                    i = lex.match_close(plain, i) + 1
            elif plain[i] in ("async", "unsafe", "default"):
                i += 1
            elif plain[i] == "extern" and i + 1 < n and plain[i + 1].startswith('"'):
                i += 2
            else:
                break
        if i >= n:
            break
        kw = plain[i]
        if kw == "const" and i + 1 < n and plain[i + 1] == "fn":
            i += 1
            kw = "fn"
        if kw not in ITEM_KW:
            # stray token (e.g. macro invocation at item level): skip to next ; or block
            j = i
            while j < n and plain[j] not in (";", "{"):
                j += 1
            if j < n and plain[j] == "{":
                j = lex.match_close(plain, j)
            i = j + 1
            continue
        # find end of item
        j = i + 1
        depth_angle = 0
        end = None
        while j < n:
            t = plain[j]
            if t in ("(", "["):
                j = lex.match_close(plain, j) + 1
                continue
            if t == "{":
                end = lex.match_close(plain, j)
                body_open = j
                break
            if t == ";":
                end = j
                body_open = None
                break
            j += 1
        if end is None:
            raise lex.LexError("item without end: " + " ".join(plain[i:i + 6]))
        if kw in ("struct", "union") and body_open is None:
            pass
        name = None
        if kw == "impl":
            hdr = plain[i + 1:body_open]
            name = "".join("@for@" if h == "for" else h for h in hdr)
        elif kw in ("fn", "struct", "enum", "const", "static", "type", "mod", "trait", "union"):
            name = plain[i + 1]
        it = Item(kw, name, container, toks[s:end + 1], toks[item_start][1], toks[end][2], attrs, src)
        items.append(it)
        if kw == "impl" and body_open is not None:
            inner = toks[body_open + 1:end]
            items.extend(parse_items(inner, src, container="impl:" + name))
        elif kw == "mod" and body_open is not None and not it.is_cfg_test():
            inner = toks[body_open + 1:end]
            items.extend(parse_items(inner, src, container="mod:" + name))
        i = end + 1
    return items


class Source:
    def __init__(self, path):
        self.path = path
        self.src = open(path).read()
        self.toks = lex.tokenize_pos(self.src)
        self.items = parse_items(self.toks, self.src)

    def find(self, kind, name, container=""):
        c = [it for it in self.items if it.kind == kind and it.name == name and it.container == container and not it.is_cfg_test()]
        if len(c) > 1:
            # several cfg variants: prefer the one without cfg(test) (already filtered) and with cfg(not(test))
            c2 = [it for it in c if any("".join(a).startswith("#[cfg(not(test))") for a in it.attrs)]
            if len(c2) == 1:
                return c2[0]
            raise KeyError("ambiguous item %s %s in %s [%s]" % (kind, name, self.path, container))
        if not c:
            raise KeyError("item not found: %s %s in %s [%s]" % (kind, name, self.path, container))
        return c[0]
