"""Which units / harnesses decide which property, and what each check leaves undecided."""

PROPS = {
    "C10": {
        "title": "good / questionable / bad exactly per BEP5 timing",
        "units": ["routing"],
        "kani": [],
        "level": "proof",
        "design_ref": "DESIGN.md §5 C10",
        "technique": "Verus function contracts on the real node.rs/bucket.rs/table.rs text + spec-level history lemmas over the contract-level transition system",
        "level_text": "Deductive proof, unbounded: Node::status is proved equal to the BEP5 status function written from the statement; every record-mutating function (as_good, as_questionable, update, local_request, remote_request) is proved equal to a transition function on the abstract record; the clauses of the statement are lemmas over that transition system for all event histories and all real-valued times (induction via an invariant, no bound).",
        "level_note": "Trusted: Verus/Z3; the prelude contracts for Duration/Instant (time.rs is a stand-in); frozen clock per call; derived Clone/PartialEq/PartialOrd semantics; the extraction tool and its rewrite catalogue (firings logged in evidence). Callers in lookup.rs/refresh.rs/bootstrap.rs are not under contract.",
        "undecided": [],
        "assumptions": [
            "frozen clock during one synchronous call (Instant::now() == clock())",
            "time.rs (81 lines wrapping std::time::Instant) is trusted; std Instant subtraction saturates at zero",
            "per-contact transition system: events reach a record only through Bucket::add_node (repeat offer -> Node::update), RoutingTable::find_node_mut (+ remote_request/local_request); callers outside the units (lookup.rs, refresh.rs, bootstrap.rs) are not under contract",
            "reading of clause (d): a Bad record is left only by an answer, or by being named again (re-admitted as a fresh questionable entry)",
        ],
    },
    "C08": {
        "title": "routing table keeps its shape; only strictly-better trades",
        "units": ["routing"],
        "kani": [],
        "level": "proof",
        "design_ref": "DESIGN.md §5 C08",
        "technique": "Verus representation invariant + functional specs on the real bucket.rs/table.rs text (mutual recursion add_node/bucket_node/split_bucket proved with decreases)",
        "level_text": "Deductive proof, unbounded: Bucket::add_node is proved equal to a functional spec (repeat offer updated in place, else first Bad slot, else first slot of strictly lower standing, else rejected); RoutingTable::{new,add_node,add_nodes,bucket_node,split_bucket} preserve the representation invariant wf (1..160 buckets, placement by shared-prefix length, own id absent, no duplicate handle, no router address) for all tables, offers and clock values; a split loses no live node; an offer removes at most one other live node and only one of strictly lower standing; the statement's clauses are corollary lemmas.",
        "level_note": "Trusted: Verus/Z3; Bucket::new stub (8 identical never-answered placeholders); leading_bit_count stub (contract proved by Kani harnesses lbc_*: bound, equality, see C09/C20 engine kx); prelude contracts for time/HashSet/SocketAddr; derived Clone/PartialEq; fixed router set (routers is a pub field assigned by the bootstrap task, outside the units); frozen clock per call.",
        "undecided": [],
        "assumptions": [
            "router set fixed after the first insertion (RoutingTable::routers is a pub field written by bootstrap.rs:156, not under contract)",
            "Bucket::new returns 8 placeholders with last_response == None (external_body stub)",
            "leading_bit_count(a,b) <= 160 and == 160 iff a == b (external_body stub; proved by Kani where the kx harness lbc_bounds passes)",
            "frozen clock during one synchronous call",
            "'at all times' is derived from 'after every operation' by lemma_time_monotone: with the passage of time alone a record's standing only decays, so the live set only shrinks",
        ],
    },
}
