"""Which units / harnesses decide which property, and what each check leaves undecided."""

PROPS = {
    "C10": {
        "title": "good / questionable / bad exactly per BEP5 timing",
        "units": ["routing"],
        "kani": [],
        "level": "proof",
        "design_ref": "DESIGN.md §5 C10",
        "technique": "Verus function contracts on the real node.rs/bucket.rs/table.rs text + spec-level history lemmas over the contract-level transition system",
        "level_text": "Deductive proof, unbounded: Node::status is proved equal to the BEP5 status function written from the statement; every record-mutating function (as_good, as_questionable, update, local_request, remote_request) is proved equal to a transition function on the abstract record; the clauses of the statement are lemmas over that transition system for all event histories and all real-valued times (induction via an invariant, no bound).",
        "level_note": "Trusted: Verus/Z3; the prelude contracts for Duration/Instant (time.rs is a stand-in); frozen clock per call; derived Clone/PartialEq/PartialOrd semantics; the extraction tool and its rewrite catalogue (firings logged in evidence). Callers in lookup.rs/refresh.rs/bootstrap.rs are not under contract.",
        "undecided": [],
        "assumptions": [
            "frozen clock during one synchronous call (Instant::now() == clock())",
            "time.rs (81 lines wrapping std::time::Instant) is trusted; std Instant subtraction saturates at zero",
            "per-contact transition system: events reach a record only through Bucket::add_node (repeat offer -> Node::update), RoutingTable::find_node_mut (+ remote_request/local_request); callers outside the units (lookup.rs, refresh.rs, bootstrap.rs) are not under contract",
            "reading of clause (d): a Bad record is left only by an answer, or by being named again (re-admitted as a fresh questionable entry)",
        ],
    },
}
