"""Rust/Verus tokenizer used by the extractor, the 3-way merge and the ghost eraser.

Tokens are plain strings.  Comments are dropped, except *label comments* of the form
`// @C08.some_clause` which are kept as one token (text `// @C08.some_clause`): they tie a
spec clause to a property clause and must survive the merge.  Punctuation is lexed by maximal
munch over Rust's (and Verus') operator set so that re-rendering tokens separated by spaces
never changes meaning.
"""
import re

PUNCT = [
    "<==>", "=~~=", "<<=", ">>=", "...", "..=", "==>", "<==", "=~=", "!==", "===", "&&&", "|||",
    "::", "->", "=>", "==", "!=", "<=", ">=", "&&", "||", "+=", "-=", "*=", "/=", "%=", "^=",
    "&=", "|=", "<<", ">>", "..",
]
PUNCT.sort(key=len, reverse=True)

_ident = re.compile(r"[A-Za-z_][A-Za-z0-9_]*")
_num = re.compile(r"[0-9][0-9A-Za-z_]*")
_label = re.compile(r"//[ \t]*@[A-Za-z0-9_.:#\-]+(?:[ \t]+@[A-Za-z0-9_.:#\-]+)*")


class LexError(Exception):
    pass


def tokenize_pos(src):
    """-> list of (token, start, end)"""
    out = []
    i, n = 0, len(src)
    while i < n:
        c = src[i]
        if c in " \t\r\n":
            i += 1
            continue
        if src.startswith("//", i):
            m = _label.match(src, i)
            j = src.find("\n", i)
            if j < 0:
                j = n
            if m and not src.startswith("///", i):
                lab = "// @" + m.group(0).split("@", 1)[1]
                out.append((lab, i, m.end()))
            i = j
            continue
        if src.startswith("/*", i):
            depth, j = 1, i + 2
            while j < n and depth:
                if src.startswith("/*", j):
                    depth += 1
                    j += 2
                elif src.startswith("*/", j):
                    depth -= 1
                    j += 2
                else:
                    j += 1
            i = j
            continue
        # raw strings / byte strings
        m = re.match(r'b?r(#*)"', src[i:i + 12])
        if m:
            hashes = m.group(1)
            endmark = '"' + hashes
            j = src.find(endmark, i + len(m.group(0)))
            if j < 0:
                raise LexError("unterminated raw string")
            j += len(endmark)
            out.append((src[i:j], i, j))
            i = j
            continue
        if c == '"' or (c == "b" and src.startswith('b"', i)):
            j = i + (2 if c == "b" else 1)
            while j < n and src[j] != '"':
                j += 2 if src[j] == "\\" else 1
            j += 1
            out.append((src[i:j], i, j))
            i = j
            continue
        if c == "'" or (c == "b" and src.startswith("b'", i)):
            k = i + (1 if c == "b" else 0)
            # char literal or lifetime
            if src[k + 1] == "\\":
                j = k + 2
                while src[j] != "'":
                    j += 1
                j += 1
                out.append((src[i:j], i, j))
                i = j
                continue
            if k + 2 < n and src[k + 2] == "'":
                out.append((src[i:k + 3], i, k + 3))
                i = k + 3
                continue
            m = _ident.match(src, k + 1)
            if m and c == "'":
                out.append((src[i:m.end()], i, m.end()))
                i = m.end()
                continue
            raise LexError("bad quote at %d" % i)
        m = _ident.match(src, i)
        if m:
            out.append((m.group(0), i, m.end()))
            i = m.end()
            continue
        m = _num.match(src, i)
        if m:
            j = m.end()
            # float: digits '.' digits, but not '..' and not a method call / tuple index chain
            if j + 1 < n and src[j] == "." and src[j + 1].isdigit() and not (out and out[-1][0] == "."):
                m2 = _num.match(src, j + 1)
                j = m2.end()
            out.append((src[i:j], i, j))
            i = j
            continue
        for p in PUNCT:
            if src.startswith(p, i):
                out.append((p, i, i + len(p)))
                i += len(p)
                break
        else:
            out.append((c, i, i + 1))
            i += 1
    return out


def tokenize(src):
    return [t for t, _, _ in tokenize_pos(src)]


def is_label(tok):
    return tok.startswith("// @")


def render(tokens, indent=""):
    """Render tokens back to compilable text: space separated, newline after ; { } , and labels."""
    lines, cur, depth = [], [], 0
    for k, t in enumerate(tokens):
        if t == "}":
            if cur:
                lines.append("    " * depth + " ".join(cur))
                cur = []
            depth = max(0, depth - 1)
        cur.append(t)
        nxt_label = k + 1 < len(tokens) and is_label(tokens[k + 1])
        if is_label(t) or (t in (";", "{", "}", ",") and not nxt_label):
            lines.append("    " * depth + " ".join(cur))
            cur = []
        if t == "{":
            depth += 1
    if cur:
        lines.append("    " * depth + " ".join(cur))
    return "\n".join(indent + l for l in lines) + "\n"


OPEN = {"(": ")", "[": "]", "{": "}"}
CLOSE = {v: k for k, v in OPEN.items()}


def match_close(toks, i):
    """toks[i] is an opening bracket; return index of its matching close."""
    depth = 0
    for j in range(i, len(toks)):
        t = toks[j]
        if t in OPEN:
            depth += 1
        elif t in CLOSE:
            depth -= 1
            if depth == 0:
                return j
    raise LexError("unbalanced from %d (%s)" % (i, " ".join(toks[i:i + 8])))


def match_open(toks, j):
    """toks[j] is a closing bracket; return index of its matching open."""
    depth = 0
    for i in range(j, -1, -1):
        t = toks[i]
        if t in CLOSE:
            depth += 1
        elif t in OPEN:
            depth -= 1
            if depth == 0:
                return i
    raise LexError("unbalanced back from %d" % j)
