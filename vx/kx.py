"""Engine kx: Kani harnesses injected into a per-run scratch copy of /repo (DESIGN §3).

Per run: rsync /repo's working tree (without target/, .git/) to a scratch directory, append the
`#[cfg(kani)] mod verif_kani_proofs {..}` blocks of /verif/kx/harness/src__<file>.rs to the matching
source files, run `cargo kani -Z stubbing -Z function-contracts --harness ..`, parse the result per
harness, delete the scratch copy with its build output.  /repo itself is never touched.
"""
import os
import re
import shutil
import subprocess
import time

HERE = os.path.dirname(os.path.dirname(os.path.abspath(__file__)))
REPO = os.environ.get("VERIF_REPO", "/repo")
HARNESS_DIR = os.path.join(HERE, "kx", "harness")

# harness name -> (source file it is appended to, what it proves, complete?)
HARNESSES = {
    "from_ip_v4_bep42": ("src/info_hash.rs", "InfoHash::from_ip(v4) passes the BEP42 check for all 2^32 addresses and all random draws", True),
    "from_ip_v6_bep42": ("src/info_hash.rs", "InfoHash::from_ip(v6) passes the BEP42 check for all addresses and all random draws", True),
    "lbc_bounds": ("src/info_hash.rs", "leading_bit_count(a,b) <= 160 and == 160 iff a == b, for all ids", True),
    "lbc_ultrametric": ("src/info_hash.rs", "lbc(a,c) >= min(lbc(a,b), lbc(b,c)); flip_bit(i) yields an id exactly i shared bits away", True),
    "info_hash_try_from_len": ("src/info_hash.rs", "InfoHash::try_from accepts exactly 20 bytes and keeps them", True),
    "compact_v4_roundtrip": ("src/compact.rs", "compact IPv4 contact: 4 address bytes + big-endian port, decode(encode(a)) == a for all a", True),
    "compact_v6_roundtrip": ("src/compact.rs", "compact IPv6 contact: 16 address bytes + big-endian port, decode(encode(a)) == a for all a", True),
    "compact_decode_total": ("src/compact.rs", "decode_socket_addr is Some iff the length is 6 or 18 (all buffers up to 19 bytes)", True),
    "tid_bytes": ("src/transaction.rs", "TransactionID is the 8 big-endian bytes of the u64; action id = top 5 bytes, message id = low 3; from_bytes round-trips", True),
    "tid_from_bytes_len": ("src/transaction.rs", "TransactionID::from_bytes accepts exactly 8 bytes", True),
    "tid_action_prefix": ("src/transaction.rs", "equal action ids iff equal 5-byte prefixes", True),
    "token_buffer_v4": ("src/token.rs", "token(v4 ip, secret) = SHA1(4 address octets ++ big-endian secret)", True),
    "token_buffer_v6": ("src/token.rs", "token(v6 ip, secret) = SHA1(16 address octets ++ big-endian secret)", True),
    "token_new_len": ("src/token.rs", "Token::new accepts exactly 20 bytes and keeps them", True),
    "id_deserialize_exactly_20_bytes": ("src/info_hash.rs", "BOUNDED (byte strings of up to 24 bytes): info_hash.rs byte_array::deserialize, driven through serde's BytesDeserializer, accepts exactly 20 bytes and keeps them", False),
    "compact_nodes_v4_length_check": ("src/compact.rs", "BOUNDED (byte strings of up to 29 bytes = one entry + 3): compact::nodes_v4::deserialize accepts a string iff its length is a multiple of 26 and yields one handle per 26 bytes", False),
    "compact_nodes_v6_length_check": ("src/compact.rs", "BOUNDED (byte strings of up to 41 bytes = one entry + 3): compact::nodes_v6::deserialize accepts a string iff its length is a multiple of 38 and yields one handle per 38 bytes", False),
    "bucket_add_newcomer": ("src/bucket.rs", "Bucket::add_node on all 3^8 status patterns of a bucket of 8 distinct nodes x a newcomer of any standing: at most one slot changes, the victim is strictly lower, no live node is displaced while a bad slot exists, a bucket without a lower slot rejects unchanged (clock stubbed; ~8-20 min)", True),
}


def _prepare(scratch):
    os.makedirs(scratch, exist_ok=True)
    dst = os.path.join(scratch, "repo")
    subprocess.run(["rsync", "-a", "--delete", "--exclude", "target", "--exclude", ".git", REPO + "/", dst + "/"], check=True)
    appended = []
    for f in sorted(os.listdir(HARNESS_DIR)):
        if not f.endswith(".rs"):
            continue
        src = f.replace("__", "/")
        target = os.path.join(dst, src)
        if not os.path.exists(target):
            raise FileNotFoundError("lost anchor: %s (for harness file %s)" % (src, f))
        with open(target, "a") as out:
            out.write(open(os.path.join(HARNESS_DIR, f)).read())
        appended.append(src)
    os.makedirs(os.path.join(dst, ".cargo"), exist_ok=True)
    with open(os.path.join(dst, ".cargo", "config.toml"), "a") as c:
        c.write("\n[net]\noffline = true\n")
    return dst, appended


def _drop_crate_artifacts(target):
    """remove every artefact / fingerprint / incremental state of the workspace crate (lib, tests, examples) from a target dir"""
    names = ("btdht", "tests", "search")
    for root, dirs, files in os.walk(target):
        for d in list(dirs):
            if d == "incremental" or any(d == n or d.startswith(n + "-") for n in names):
                shutil.rmtree(os.path.join(root, d), ignore_errors=True)
                dirs.remove(d)
        for f in files:
            if any(n in f for n in ("btdht", "verif_kani")) or any(f.startswith(n + "-") or f.startswith("lib" + n + "-") for n in names):
                try:
                    os.unlink(os.path.join(root, f))
                except OSError:
                    pass


def _parse(output):
    """-> {harness: {status, failed_checks, checks, covers}}"""
    res = {}
    cur = None
    by_thread = {}
    thread = None
    for line in output.split("\n"):
        mt = re.match(r"Thread (\d+): ?(.*)", line)
        if mt:
            thread = mt.group(1)
            line = mt.group(2)
            cur = by_thread.get(thread)
        m = re.match(r"Checking harness (\S+?)\.\.\.", line)
        if m:
            cur = m.group(1).split("::")[-1]
            by_thread[thread] = cur
            res[cur] = {"status": None, "failed": [], "checks": 0, "failed_n": 0, "covers": None, "text": []}
            continue
        if cur is None:
            continue
        res[cur]["text"].append(line)
        m = re.match(r"\s*\*\* (\d+) of (\d+) failed", line)
        if m:
            res[cur]["failed_n"], res[cur]["checks"] = int(m.group(1)), int(m.group(2))
        m = re.match(r"\s*\*\* (\d+) of (\d+) cover properties satisfied", line)
        if m:
            res[cur]["covers"] = (int(m.group(1)), int(m.group(2)))
        m = re.match(r"Failed Checks: (.*)", line)
        if m:
            res[cur]["failed"].append(m.group(1))
        m = re.match(r"VERIFICATION:- (\w+)", line)
        if m:
            res[cur]["status"] = m.group(1)
    return res


_HASSERTS = None


def _is_harness_assert(desc):
    """is this failed-check description one of the `assert!(..)` lines of the harness files (functional assertion), not a panic of the code under test"""
    global _HASSERTS
    if _HASSERTS is None:
        _HASSERTS = set()
        for f in os.listdir(HARNESS_DIR):
            if f.endswith(".rs"):
                for m in re.finditer(r"assert!\((.*)\);", open(os.path.join(HARNESS_DIR, f)).read()):
                    _HASSERTS.add(re.sub(r"\s+", "", m.group(1)))
    d = re.sub(r"\s+", "", desc)
    return any(d.endswith("assertionfailed:" + a) or ("assertionfailed:" + a) in d for a in _HASSERTS)


_KCACHE = {}      # harness -> {"hr": parsed result or None, "concrete": str or None, "cmd": str, "problem": str or None}


def prefetch(harnesses, scratch_root):
    """run the given harnesses in ONE cargo kani invocation on a scratch copy of the current tree and cache the results"""
    todo = [h for h in harnesses if h not in _KCACHE]
    if not todo:
        return
    scratch = os.path.join(scratch_root, "kx-%d" % os.getpid())
    try:
        try:
            dst, appended = _prepare(scratch)
        except (FileNotFoundError, subprocess.CalledProcessError) as e:
            for h in todo:
                _KCACHE[h] = {"hr": None, "concrete": None, "cmd": "", "problem": "kx: %s" % e}
            return
        cmd = ["cargo", "kani", "-Z", "stubbing", "-Z", "function-contracts", "-j", "8", "--output-format", "terse"]
        for h in todo:
            cmd += ["--harness", h]
        # Every run gets a PRIVATE cargo target directory.  Third-party crates come from a shared cache that is hard-linked into
        # it (cp -al); everything cargo could mistake for an up-to-date build of the crate under proof is removed first.  (Cargo
        # keys a workspace member's artefacts and fingerprint by its path RELATIVE to the workspace root, so two scratch copies
        # of btdht at different absolute paths collide in a shared target directory: a concurrent or later run could be handed
        # the other tree's build.  A private directory rules that out.)
        cache = os.path.join(scratch_root, "kani-deps-cache")
        target = os.path.join(scratch, "target")
        if os.path.isdir(cache):
            subprocess.run(["cp", "-al", cache, target], check=False)
            _drop_crate_artifacts(target)
        env = dict(os.environ, CARGO_NET_OFFLINE="true", CARGO_TARGET_DIR=target)
        try:
            r = subprocess.run(cmd, cwd=dst, capture_output=True, text=True, timeout=6000, env=env)
        except subprocess.TimeoutExpired:
            for h in todo:
                _KCACHE[h] = {"hr": None, "concrete": None, "cmd": " ".join(cmd), "problem": "kx: cargo kani timeout"}
            return
        cmdtxt = "CARGO_NET_OFFLINE=true " + " ".join(cmd) + "   # in a scratch copy of /repo with kx/harness/* appended"
        text = r.stdout + "\n" + r.stderr
        res = _parse(text)
        if not res:
            # build failure / compiler crash in the scratch copy: renamed item, changed signature, Kani limit -> inconclusive
            errs = [l for l in text.split("\n") if l.startswith(("error", "thread 'rustc'")) or "unsupported" in l.lower()]
            msg = "kx: kani produced no harness result (compile error in harness against the current tree, or a Kani compiler limit): " + (" | ".join(errs[:6])[:900] if errs else text[-600:])
            for h in todo:
                _KCACHE[h] = {"hr": None, "concrete": None, "cmd": cmdtxt, "problem": msg}
            return
        for h in todo:
            hr = res.get(h)
            concrete = None
            if hr is not None and hr["status"] not in (None, "SUCCESSFUL"):
                real = [f for f in hr["failed"] if "unwinding assertion" not in f]
                if real:
                    concrete = _playback(dst, h, env)
            _KCACHE[h] = {"hr": hr, "concrete": concrete, "cmd": cmdtxt, "problem": None if hr is not None and hr["status"] is not None else "kx: no result for harness %s" % h}
        if not os.path.isdir(cache):
            # first run on this machine: publish the dependency builds (atomic rename; a concurrent publisher wins harmlessly)
            try:
                _drop_crate_artifacts(target)
                os.rename(target, cache)
            except OSError:
                pass
    finally:
        shutil.rmtree(scratch, ignore_errors=True)


def run_harnesses(pid, harnesses, tier, cov, cmds, scratch_root):
    out = {"violations": [], "inconclusive": []}
    t0 = time.time()
    prefetch(harnesses, scratch_root)
    if "CBMC 6.11 / CaDiCaL (Kani 0.68)" not in cov["back_ends"]:
        cov["back_ends"].append("CBMC 6.11 / CaDiCaL (Kani 0.68)")
    seen_cmd = set()
    problems = set()
    for h in harnesses:
        c = _KCACHE[h]
        if c["cmd"] and c["cmd"] not in seen_cmd:
            cmds.append(c["cmd"])
            seen_cmd.add(c["cmd"])
        if c["problem"]:
            problems.add(c["problem"])
            continue
        hr = c["hr"]
        src, what, complete = HARNESSES[h]
        # a bounded stand-in is reported, never counted as a discharged proof obligation
        if complete:
            cov["obligations"] += max(hr["checks"], 1)
        entry = {"harness": h, "appended_to": src, "proves": what, "checks": hr["checks"], "failed": hr["failed_n"],
                 "status": hr["status"], "covers": hr["covers"], "complete": complete,
                 "bound": ("loops bounded by constants of the code (20 id bytes, 4/8/16 address bytes, 8 bucket slots), unwinding assertions on; inputs fully symbolic" if complete
                           else "BOUNDED stand-in: input length bounded as stated, contents fully symbolic, unwinding assertions on; alloc::fmt::format stubbed (error texts)")}
        cov["kani_harnesses" if complete else "bounded_checks"].append(entry) if complete else cov.setdefault("bounded_checks", []).append(entry)
        if hr["status"] == "SUCCESSFUL":
            if complete:
                cov["discharged"] += max(hr["checks"], 1)
            if hr["covers"] and hr["covers"][0] < hr["covers"][1]:
                out["inconclusive"].append("kx vacuity guard: cover! unreachable in %s" % h)
            if len(cov["samples"]) < 8:
                cov["samples"].append({"harness": h, "obligation": what, "cbmc_checks": hr["checks"]})
        else:
            unwinding = [f for f in hr["failed"] if "unwinding assertion" in f]
            real = [f for f in hr["failed"] if "unwinding assertion" not in f]
            if pid == "C14":
                # C14 uses the decoder harnesses for panic-freedom only: a failed check that is one of the harness's own functional
                # assertions (what the decoder accepts) is another property's matter
                real_panics = [f for f in real if not _is_harness_assert(f)]
                if real and not real_panics:
                    cov["obligations"] += 0
                    continue
                real = real_panics
            if unwinding and not real:
                out["inconclusive"].append("kx: unwinding bound too small for %s on the current tree" % h)
                continue
            if complete:
                cov["discharged"] += max(hr["checks"] - hr["failed_n"], 0)
            out["violations"].append({
                "obligation": "kx::%s#%s" % (h, (real[0] if real else "failed")[:80]),
                "message": "; ".join(real)[:400] or "verification failed",
                "engine": "kani", "rendered": "\n".join(hr["text"][-40:]), "changed": "", "concrete": c["concrete"]})
    for pr in sorted(problems):
        out["inconclusive"].append(pr)
    cov["kani_wall_s"] = round(time.time() - t0, 1)
    return out


def _playback(dst, harness, env):
    """re-run the failing harness with concrete playback, then replay the generated test natively"""
    try:
        cmd = ["cargo", "kani", "-Z", "stubbing", "-Z", "function-contracts", "-Z", "concrete-playback",
               "--concrete-playback=inplace", "--harness", harness, "--output-format", "terse"]
        r = subprocess.run(cmd, cwd=dst, capture_output=True, text=True, timeout=1500, env=env)
        txt = r.stdout + r.stderr
        m = re.search(r"(kani_concrete_playback_\w+)", txt)
        if not m:
            return None
        test = m.group(1)
        # locate the generated test text
        body = ""
        for root, _, files in os.walk(os.path.join(dst, "src")):
            for f in files:
                p = os.path.join(root, f)
                s = open(p).read()
                k = s.find("fn " + test)
                if k >= 0:
                    e = s.find("\n    }\n", k)
                    body = s[max(0, k - 12):(e + 6 if e > 0 else k + 3000)]
        r2 = subprocess.run(["cargo", "kani", "playback", "-Z", "concrete-playback", "--", test],
                            cwd=dst, capture_output=True, text=True, timeout=1500, env=env)
        keep = [l for l in (r2.stdout + r2.stderr).split("\n") if re.search(r"^test |panicked|assertion|FAILED|test result|failures:|Running", l)]
        native = "\n".join(keep)[-2500:]
        return "generated test:\n%s\n\nnative replay against the real code (cargo kani playback):\n%s" % (body, native)
    except Exception as e:      # replay is best effort
        return "concrete playback unavailable: %s" % e
