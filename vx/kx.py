"""Engine kx: Kani harnesses injected into a per-run scratch copy of /repo (DESIGN §3)."""


def run_harnesses(pid, harnesses, tier, cov, cmds, scratch):
    return {"violations": [], "inconclusive": ["kx engine not built yet"]}
