
// ===== appended by /verif engine kx (Kani harnesses; #[cfg(kani)] only) =====
#[cfg(kani)]
mod verif_kani_proofs {
    use super::*;
    use crate::node::verif_kani_support::{now_stub, status_stub};
    use std::net::{Ipv4Addr, SocketAddrV4};

    fn mk(live: bool, id: NodeId, n: u16) -> Node {
        let addr = SocketAddr::V4(SocketAddrV4::new(Ipv4Addr::new(10, 0, 0, 1), 1000 + n));
        if live { Node::as_good(id, addr) } else { Node::as_bad(id, addr) }
    }

    /// BOUNDED stand-in for the part of C09 that no contract reaches (ClosestNodes, table.rs:253-340):
    /// table of 2 buckets (bucket 0 = ids differing from the local id in the first bit, bucket 1 = the assorted last bucket),
    /// 3 slots of each bucket filled with a node of symbolic liveness, symbolic target; enumerating the closest nodes yields
    /// every live node exactly once and nothing else.  Bound: 2 buckets, 6 candidate nodes.  NOT a proof.
    #[kani::proof]
    #[kani::stub(crate::time::Instant::now, now_stub)]
    #[kani::stub(crate::node::Node::status, status_stub)]
    #[kani::unwind(165)]
    fn closest_nodes_each_live_node_once_bounded() {
        let local = NodeId::from([0u8; 20]);
        let mut far = [0u8; 20];
        far[0] = 0x80;                       // shares 0 bits with the local id -> bucket 0
        let mut near = [0u8; 20];
        near[19] = kani::any();              // shares >= 152 bits -> assorted (last) bucket
        kani::assume(near[19] != 0);
        let live: [bool; 6] = kani::any();
        let mut b0 = Bucket::new();
        let mut b1 = Bucket::new();
        let mut k = 0;
        while k < 3 {
            b0.add_node(mk(live[k], NodeId::from(far), k as u16));
            b1.add_node(mk(live[3 + k], NodeId::from(near), 3 + k as u16));
            k += 1;
        }
        let buckets = [b0, b1];
        let t: [u8; 20] = kani::any();
        let mut seen = [0u8; 6];
        let mut total = 0usize;
        let mut it = ClosestNodes::new(&buckets, local, NodeId::from(t));
        while let Some(n) = it.next() {
            let p = (n.addr().port() - 1000) as usize;
            assert!(p < 6);
            seen[p] += 1;
            total += 1;
            assert!(total <= 6);
        }
        let mut j = 0;
        while j < 6 {
            assert!(seen[j] == if live[j] { 1 } else { 0 });
            j += 1;
        }
        kani::cover!(total == 6);
    }
}
