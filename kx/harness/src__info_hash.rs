
// ===== appended by /verif engine kx (Kani harnesses; #[cfg(kani)] only) =====
#[cfg(kani)]
mod verif_kani_proofs {
    use super::*;
    fn any_random<T: kani::Arbitrary>() -> T { kani::any() }
    // rand::random::<InfoHash>() is legal in the crate (Distribution<InfoHash> for Standard): the stub must cover it
    impl kani::Arbitrary for InfoHash { fn any() -> Self { InfoHash(kani::any()) } }
    /// bitwise reference CRC-32C (Castagnoli, reflected 0x82F63B78), written from RFC 3720 / BEP42
    fn crc32c_ref(data: &[u8]) -> u32 {
        let mut crc: u32 = !0;
        let mut i = 0;
        while i < data.len() {
            crc ^= data[i] as u32;
            let mut k = 0;
            while k < 8 { crc = if crc & 1 != 0 { (crc >> 1) ^ 0x82F63B78 } else { crc >> 1 }; k += 1; }
            i += 1;
        }
        !crc
    }
    // ASSUMED CONTRACT: the crc32c crate computes CRC-32C (it reaches cpuid inline asm, which Kani rejects)
    fn crc_append_stub(crc: u32, data: &[u8]) -> u32 { assert!(crc == 0); crc32c_ref(data) }

    /// BEP42 check, written from the BEP: mask, r = id[19] & 7, top 21 bits of crc32c
    fn bep42_ok(ip: IpAddr, id: &[u8; 20]) -> bool {
        let r = id[19] & 0x7;
        let crc = match ip {
            IpAddr::V4(v4) => {
                let o = v4.octets();
                let m = [0x03u8, 0x0f, 0x3f, 0xff];
                let mut b = [o[0] & m[0], o[1] & m[1], o[2] & m[2], o[3] & m[3]];
                b[0] |= r << 5;
                crc32c_ref(&b)
            }
            IpAddr::V6(v6) => {
                let o = v6.octets();
                let m = [0x01u8, 0x03, 0x07, 0x0f, 0x1f, 0x3f, 0x7f, 0xff];
                let mut b = [0u8; 8];
                let mut i = 0;
                while i < 8 { b[i] = o[i] & m[i]; i += 1; }
                b[0] |= r << 5;
                crc32c_ref(&b)
            }
        };
        id[0] == (crc >> 24) as u8 && id[1] == (crc >> 16) as u8 && (id[2] & 0xf8) == ((crc >> 8) as u8 & 0xf8)
    }

    #[kani::proof]
    #[kani::stub(rand::random, any_random)]
    #[kani::stub(crc32c::crc32c_append, crc_append_stub)]
    #[kani::unwind(21)]
    fn from_ip_v4_bep42() {
        let o: [u8; 4] = kani::any();
        let ip = IpAddr::V4(std::net::Ipv4Addr::from(o));
        let id = InfoHash::from_ip(ip);
        assert!(bep42_ok(ip, &id.0));
        kani::cover!(id.0[19] & 7 == 5);
    }

    #[kani::proof]
    #[kani::stub(rand::random, any_random)]
    #[kani::stub(crc32c::crc32c_append, crc_append_stub)]
    #[kani::unwind(21)]
    fn from_ip_v6_bep42() {
        let o: [u8; 16] = kani::any();
        let ip = IpAddr::V6(std::net::Ipv6Addr::from(o));
        let id = InfoHash::from_ip(ip);
        assert!(bep42_ok(ip, &id.0));
        kani::cover!(id.0[19] & 7 == 2);
    }

    /// contract of table::leading_bit_count used as axiom lbc_ax in the Verus unit `routing`
    #[kani::proof]
    #[kani::unwind(21)]
    fn lbc_bounds() {
        let a: [u8; 20] = kani::any();
        let b: [u8; 20] = kani::any();
        let lz = crate::table::leading_bit_count(InfoHash::from(a), InfoHash::from(b));
        assert!(lz <= 160);
        assert!((lz == 160) == (a == b));
        kani::cover!(lz == 159);
    }

    #[kani::proof]
    #[kani::unwind(21)]
    fn lbc_ultrametric() {
        let a: [u8; 20] = kani::any();
        let b: [u8; 20] = kani::any();
        let c: [u8; 20] = kani::any();
        let (a, b, c) = (InfoHash::from(a), InfoHash::from(b), InfoHash::from(c));
        let ab = (a ^ b).leading_zeros();
        let bc = (b ^ c).leading_zeros();
        let ac = (a ^ c).leading_zeros();
        assert!(ac >= ab.min(bc));
        let i: usize = kani::any();
        kani::assume(i < 160);
        assert!((a ^ a.flip_bit(i)).leading_zeros() as usize == i);
        kani::cover!(ab == 7 && bc == 9);
    }

    /// node ids are exactly 20 bytes on the wire (C13 part)
    #[kani::proof]
    #[kani::unwind(22)]
    fn info_hash_try_from_len() {
        let buf: [u8; 21] = kani::any();
        let n: usize = kani::any();
        kani::assume(n <= 21);
        let r = InfoHash::try_from(&buf[..n]);
        assert!(r.is_ok() == (n == 20));
        if let Ok(h) = r {
            let back: &[u8] = h.as_ref();
            assert!(back.len() == 20);
            let mut i = 0;
            while i < 20 { assert!(back[i] == buf[i]); i += 1; }
        }
        kani::cover!(n == 20);
    }

    // serde layer of node ids / info-hashes (info_hash.rs byte_array::deserialize), driven through serde's own BytesDeserializer
    fn stub_format(_a: std::fmt::Arguments<'_>) -> String { String::new() }

    /// BOUNDED (byte strings of up to 24 bytes): the deserializer of ids accepts exactly 20 bytes and keeps them (C13)
    #[kani::proof]
    #[kani::unwind(26)]
    #[kani::stub(alloc::fmt::format, stub_format)]
    fn id_deserialize_exactly_20_bytes() {
        use serde::de::value::{BytesDeserializer, Error as DeError};
        const N: usize = 24;
        let buf: [u8; N] = kani::any();
        let n: usize = kani::any();
        kani::assume(n <= N);
        let de: BytesDeserializer<DeError> = BytesDeserializer::new(&buf[..n]);
        let r = byte_array::deserialize(de);
        assert!(r.is_ok() == (n == 20));
        if let Ok(a) = r {
            let mut i = 0;
            while i < 20 { assert!(a[i] == buf[i]); i += 1; }
        }
        kani::cover!(n == 20);
    }
}
