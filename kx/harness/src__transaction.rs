
// ===== appended by /verif engine kx (Kani harnesses; #[cfg(kani)] only) =====
#[cfg(kani)]
mod verif_kani_proofs {
    use super::*;

    /// byte layout of a transaction id: 8 big-endian bytes, action prefix = top 5, message id = low 3
    #[kani::proof]
    fn tid_bytes() {
        let v: u64 = kani::any();
        let t = TransactionID::new(v);
        assert!(t.as_ref().len() == 8);
        assert!(t.action_id().action_id == v >> 24);
        assert!(t.message_id().message_id == v & 0xff_ffff);
        let t2 = TransactionID::from_bytes(t.as_ref()).unwrap();
        assert!(t2 == t);
        assert!(u64::from_be_bytes(t.bytes) == v);
        kani::cover!(v == 0x0102030405060708);
    }

    /// from_bytes accepts exactly 8 bytes
    #[kani::proof]
    #[kani::unwind(11)]
    fn tid_from_bytes_len() {
        let buf: [u8; 10] = kani::any();
        let n: usize = kani::any();
        kani::assume(n <= 10);
        let r = TransactionID::from_bytes(&buf[..n]);
        assert!(r.is_some() == (n == 8));
        kani::cover!(n == 8);
    }

    /// two ids share an action prefix iff their top 5 bytes agree
    #[kani::proof]
    fn tid_action_prefix() {
        let a: u64 = kani::any();
        let b: u64 = kani::any();
        let (ta, tb) = (TransactionID::new(a), TransactionID::new(b));
        assert!((ta.action_id() == tb.action_id()) == (ta.bytes[0..5] == tb.bytes[0..5]));
        kani::cover!(ta.action_id() == tb.action_id() && a != b);
    }
}
