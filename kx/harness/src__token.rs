
// ===== appended by /verif engine kx (Kani harnesses; #[cfg(kani)] only) =====
#[cfg(kani)]
mod verif_kani_proofs {
    use super::*;
    static mut SEEN: [u8; 20] = [0; 20];
    static mut SEEN_LEN: usize = 0;
    static mut OUT: [u8; 20] = [0; 20];
    // recording stub: the harness asserts the exact buffer handed to SHA-1 (SHA-1 itself is assumed)
    fn sha1_stub(bytes: &[u8]) -> InfoHash {
        unsafe {
            SEEN_LEN = bytes.len();
            let mut i = 0;
            while i < bytes.len() && i < 20 { SEEN[i] = bytes[i]; i += 1; }
            let out: [u8; 20] = kani::any();
            OUT = out;
            InfoHash::from(out)
        }
    }

    #[kani::proof]
    #[kani::stub(crate::info_hash::InfoHash::sha1, sha1_stub)]
    #[kani::unwind(22)]
    fn token_buffer_v4() {
        let o: [u8; 4] = kani::any();
        let s: u32 = kani::any();
        let t = generate_token_from_addr(IpAddr::V4(Ipv4Addr::from(o)), s);
        unsafe {
            assert!(SEEN_LEN == 8);
            let sb = s.to_be_bytes();
            assert!(SEEN[0] == o[0] && SEEN[1] == o[1] && SEEN[2] == o[2] && SEEN[3] == o[3]);
            assert!(SEEN[4] == sb[0] && SEEN[5] == sb[1] && SEEN[6] == sb[2] && SEEN[7] == sb[3]);
            assert!(t.token == OUT);
        }
        kani::cover!(s == 7);
    }

    #[kani::proof]
    #[kani::stub(crate::info_hash::InfoHash::sha1, sha1_stub)]
    #[kani::unwind(22)]
    fn token_buffer_v6() {
        let o: [u8; 16] = kani::any();
        let s: u32 = kani::any();
        let t = generate_token_from_addr(IpAddr::V6(Ipv6Addr::from(o)), s);
        unsafe {
            assert!(SEEN_LEN == 20);
            let sb = s.to_be_bytes();
            let mut i = 0;
            while i < 16 { assert!(SEEN[i] == o[i]); i += 1; }
            assert!(SEEN[16] == sb[0] && SEEN[17] == sb[1] && SEEN[18] == sb[2] && SEEN[19] == sb[3]);
            assert!(t.token == OUT);
        }
        kani::cover!(s == 7);
    }

    /// Token::new accepts exactly 20 bytes and keeps them
    #[kani::proof]
    #[kani::unwind(23)]
    fn token_new_len() {
        let buf: [u8; 22] = kani::any();
        let n: usize = kani::any();
        kani::assume(n <= 22);
        let r = Token::new(&buf[..n]);
        assert!(r.is_ok() == (n == 20));
        if let Ok(t) = r {
            let mut i = 0;
            while i < 20 { assert!(t.token[i] == buf[i]); i += 1; }
        }
        kani::cover!(n == 20);
    }
}
