
// ===== appended by /verif engine kx (Kani harnesses; #[cfg(kani)] only) =====
#[cfg(kani)]
pub(crate) mod verif_kani_support {
    use super::*;
    /// ASSUMED CONTRACT used by bounded harnesses only: a record that never answered is Bad, any other record is pingable
    /// (Node::status itself is proved in the Verus unit `routing`; this stub removes the Timespec arithmetic from CBMC's formula)
    pub(crate) fn status_stub(n: &Node) -> NodeStatus {
        if n.last_response.is_none() { NodeStatus::Bad } else if n.refresh_requests >= 1 { NodeStatus::Questionable } else { NodeStatus::Good }
    }
    pub(crate) fn now_stub() -> crate::time::Instant {
        unsafe { std::mem::transmute::<[u64; 2], crate::time::Instant>([10_000_000, 10_000_000]) }
    }
}
