
// ===== appended by /verif engine kx (Kani harnesses; #[cfg(kani)] only) =====
#[cfg(kani)]
mod verif_kani_proofs {
    use super::*;
    use std::net::SocketAddrV4;

    // ASSUMED: the clock does not move during the harness (one synchronous call); std's clock_gettime is outside CBMC's model
    fn now_stub() -> crate::time::Instant {
        unsafe { std::mem::transmute::<[u64; 2], crate::time::Instant>([10_000_000, 10_000_000]) }
    }

    fn node_of_kind(kind: u8, n: u8) -> Node {
        let id = NodeId::from([n; NODE_ID_LEN]);
        let addr = SocketAddr::V4(SocketAddrV4::new(Ipv4Addr::new(10, 0, 0, n), 1000 + n as u16));
        match kind {
            0 => Node::as_bad(id, addr),
            1 => Node::as_questionable(id, addr),
            _ => Node::as_good(id, addr),
        }
    }

    /// C08 (bucket level), complete for all 3^8 status patterns of a bucket of 8 distinct nodes and a newcomer of any standing:
    /// at most one slot changes; the victim has strictly lower standing; no live node is displaced while a bad slot exists;
    /// a bucket without a lower-standing slot rejects and stays unchanged.
    #[kani::proof]
    #[kani::stub(crate::time::Instant::now, now_stub)]
    #[kani::unwind(22)]
    fn bucket_add_newcomer() {
        let kinds: [u8; 8] = kani::any();
        let mut bucket = Bucket::new();
        let mut i = 0;
        while i < 8 {
            kani::assume(kinds[i] < 3);
            bucket.nodes[i] = node_of_kind(kinds[i], i as u8 + 1);
            i += 1;
        }
        let nk: u8 = kani::any();
        kani::assume(nk < 3);
        let newcomer = node_of_kind(nk, 100);
        let before: [NodeStatus; 8] = [
            bucket.nodes[0].status(), bucket.nodes[1].status(), bucket.nodes[2].status(), bucket.nodes[3].status(),
            bucket.nodes[4].status(), bucket.nodes[5].status(), bucket.nodes[6].status(), bucket.nodes[7].status(),
        ];
        let had_bad = before.iter().any(|s| *s == NodeStatus::Bad);
        let accepted = bucket.add_node(newcomer.clone());
        let new_status = newcomer.status();
        let mut changed = 0;
        let mut j = 0;
        while j < 8 {
            let is_new = bucket.nodes[j] == newcomer;
            if is_new {
                changed += 1;
                assert!(before[j] < new_status);                                  // victim strictly lower
                assert!(!had_bad || before[j] == NodeStatus::Bad);                 // never a live node while a bad slot exists
            } else {
                assert!(bucket.nodes[j].id() == NodeId::from([j as u8 + 1; NODE_ID_LEN]));   // every other slot keeps its node
                assert!(bucket.nodes[j].status() == before[j]);
            }
            j += 1;
        }
        assert!(changed <= 1);
        if new_status == NodeStatus::Bad {
            assert!(accepted && changed == 0);
        } else {
            let room = before.iter().any(|s| *s < new_status);
            assert!(accepted == room);
            assert!((changed == 1) == room);
        }
        kani::cover!(accepted && changed == 1 && !had_bad);
        kani::cover!(!accepted);
    }
}
