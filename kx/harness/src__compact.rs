
// ===== appended by /verif engine kx (Kani harnesses; #[cfg(kani)] only) =====
#[cfg(kani)]
mod verif_kani_proofs {
    use super::*;
    use std::net::{SocketAddrV4, SocketAddrV6};

    #[kani::proof]
    #[kani::unwind(20)]
    fn compact_v4_roundtrip() {
        let o: [u8; 4] = kani::any();
        let p: u16 = kani::any();
        let a = SocketAddr::V4(SocketAddrV4::new(Ipv4Addr::from(o), p));
        let e = encode_socket_addr(&a);
        assert!(e.len() == 6);
        assert!(e[0] == o[0] && e[1] == o[1] && e[2] == o[2] && e[3] == o[3]);
        assert!(e[4] == (p >> 8) as u8 && e[5] == (p & 0xff) as u8);
        assert!(decode_socket_addr(&e) == Some(a));
        kani::cover!(p == 6881);
    }

    #[kani::proof]
    #[kani::unwind(20)]
    fn compact_v6_roundtrip() {
        let o: [u8; 16] = kani::any();
        let p: u16 = kani::any();
        let a = SocketAddr::V6(SocketAddrV6::new(Ipv6Addr::from(o), p, 0, 0));
        let e = encode_socket_addr(&a);
        assert!(e.len() == 18);
        let mut i = 0;
        while i < 16 { assert!(e[i] == o[i]); i += 1; }
        assert!(e[16] == (p >> 8) as u8 && e[17] == (p & 0xff) as u8);
        assert!(decode_socket_addr(&e) == Some(a));
        kani::cover!(p == 6881);
    }

    #[kani::proof]
    #[kani::unwind(20)]
    fn compact_decode_total() {
        let buf: [u8; 19] = kani::any();
        let n: usize = kani::any();
        kani::assume(n <= 19);
        let r = decode_socket_addr(&buf[..n]);
        assert!(r.is_some() == (n == 6 || n == 18));
        kani::cover!(n == 18);
    }

    // serde layer of compact node lists (compact.rs nodes::deserialize), driven through serde's own BytesDeserializer
    fn stub_format(_a: std::fmt::Arguments<'_>) -> String { String::new() }

    /// BOUNDED (byte strings of up to 29 bytes = one entry + 3): a `nodes` string is accepted iff its length is a multiple of 26,
    /// and yields one handle per 26 bytes (C13)
    #[kani::proof]
    #[kani::unwind(4)]
    #[kani::stub(alloc::fmt::format, stub_format)]
    fn compact_nodes_v4_length_check() {
        use serde::de::value::{BytesDeserializer, Error as DeError};
        const N: usize = 26 + 3;
        let buf: [u8; N] = kani::any();
        let n: usize = kani::any();
        kani::assume(n <= N);
        let de: BytesDeserializer<DeError> = BytesDeserializer::new(&buf[..n]);
        let r = nodes_v4::deserialize(de);
        assert!(r.is_ok() == (n % 26 == 0));
        if let Ok(v) = r {
            assert!(v.len() == n / 26);
        }
        kani::cover!(n == 26);
    }

    /// BOUNDED (byte strings of up to 41 bytes = one entry + 3): `nodes6` accepted iff the length is a multiple of 38 (C13)
    #[kani::proof]
    #[kani::unwind(4)]
    #[kani::stub(alloc::fmt::format, stub_format)]
    fn compact_nodes_v6_length_check() {
        use serde::de::value::{BytesDeserializer, Error as DeError};
        const N: usize = 38 + 3;
        let buf: [u8; N] = kani::any();
        let n: usize = kani::any();
        kani::assume(n <= N);
        let de: BytesDeserializer<DeError> = BytesDeserializer::new(&buf[..n]);
        let r = nodes_v6::deserialize(de);
        assert!(r.is_ok() == (n % 38 == 0));
        if let Ok(v) = r {
            assert!(v.len() == n / 38);
        }
        kani::cover!(n == 38);
    }
}
