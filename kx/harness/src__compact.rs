
// ===== appended by /verif engine kx (Kani harnesses; #[cfg(kani)] only) =====
#[cfg(kani)]
mod verif_kani_proofs {
    use super::*;
    use std::net::{SocketAddrV4, SocketAddrV6};

    #[kani::proof]
    #[kani::unwind(20)]
    fn compact_v4_roundtrip() {
        let o: [u8; 4] = kani::any();
        let p: u16 = kani::any();
        let a = SocketAddr::V4(SocketAddrV4::new(Ipv4Addr::from(o), p));
        let e = encode_socket_addr(&a);
        assert!(e.len() == 6);
        assert!(e[0] == o[0] && e[1] == o[1] && e[2] == o[2] && e[3] == o[3]);
        assert!(e[4] == (p >> 8) as u8 && e[5] == (p & 0xff) as u8);
        assert!(decode_socket_addr(&e) == Some(a));
        kani::cover!(p == 6881);
    }

    #[kani::proof]
    #[kani::unwind(20)]
    fn compact_v6_roundtrip() {
        let o: [u8; 16] = kani::any();
        let p: u16 = kani::any();
        let a = SocketAddr::V6(SocketAddrV6::new(Ipv6Addr::from(o), p, 0, 0));
        let e = encode_socket_addr(&a);
        assert!(e.len() == 18);
        let mut i = 0;
        while i < 16 { assert!(e[i] == o[i]); i += 1; }
        assert!(e[16] == (p >> 8) as u8 && e[17] == (p & 0xff) as u8);
        assert!(decode_socket_addr(&e) == Some(a));
        kani::cover!(p == 6881);
    }

    #[kani::proof]
    #[kani::unwind(20)]
    fn compact_decode_total() {
        let buf: [u8; 19] = kani::any();
        let n: usize = kani::any();
        kani::assume(n <= 19);
        let r = decode_socket_addr(&buf[..n]);
        assert!(r.is_some() == (n == 6 || n == 18));
        kani::cover!(n == 18);
    }
}
