// Demonstration of the genuine defect repaired by the /repo commit "fix: queue searches requested before the initial bootstrap has finished".
// Append to tests/tests.rs of the tree BEFORE that commit and run `cargo test --offline --test tests verif_demo`:
// it fails (B finds no peer: A's early announcing search ran on an empty table and was dropped); with the fix it passes.

// verif demo (C16): a search issued before the initial bootstrap has finished must be carried out after it
#[test_log::test(tokio::test(flavor = "multi_thread"))]
async fn verif_demo_early_search_is_carried_out() {
    let addr_family = AddrFamily::V4;
    let bootstrap_node_socket = UdpSocket::bind(localhost(addr_family)).await.unwrap();
    let bootstrap_node_addr = bootstrap_node_socket.local_addr().unwrap();
    let bootstrap_node = MainlineDht::builder().set_read_only(false).start(bootstrap_node_socket).unwrap();
    assert!(bootstrap_node.bootstrapped().await);

    let a_socket = UdpSocket::bind(localhost(addr_family)).await.unwrap();
    let a_addr = a_socket.local_addr().unwrap();
    let a_node = MainlineDht::builder().add_node(bootstrap_node_addr).set_read_only(false).start(a_socket).unwrap();
    let the_info_hash = InfoHash::sha1(b"early");
    // issued right away: the initial bootstrap of A cannot have finished yet
    let mut early = a_node.search(the_info_hash, true);
    assert_eq!(early.next().await, None);
    assert!(a_node.bootstrapped().await);

    let b_socket = UdpSocket::bind(localhost(addr_family)).await.unwrap();
    let b_node = MainlineDht::builder().add_node(bootstrap_node_addr).set_read_only(false).start(b_socket).unwrap();
    assert!(b_node.bootstrapped().await);
    let mut search = b_node.search(the_info_hash, false);
    assert_eq!(search.next().await, Some(a_addr), "the early announcing search of A was dropped");
}
