// Demonstration of the genuine defect repaired by the /repo commit "fix: TableRefresh keeps a single pending refresh timeout".
// Append to src/action/refresh.rs of the tree BEFORE that commit, add "test-util" to the tokio dev-dependency features,
// and run `cargo test --offline --lib verif_demo`: it fails (rounds == 2); with the fix it passes (rounds == 1).

#[cfg(test)]
mod verif_demo {
    use super::*;
    use crate::transaction::AIDGenerator;
    use crate::SocketTrait;
    use async_trait::async_trait;
    use futures_util::StreamExt;
    use std::{io, net::SocketAddr};

    struct NullSocket;
    #[async_trait]
    impl SocketTrait for NullSocket {
        async fn send_to(&self, _buf: &[u8], _target: &SocketAddr) -> io::Result<()> { Ok(()) }
        async fn recv_from(&self, _buf: &mut [u8]) -> io::Result<(usize, SocketAddr)> { std::future::pending().await }
        fn local_addr(&self) -> io::Result<SocketAddr> { Ok("127.0.0.1:1".parse().unwrap()) }
    }

    // handle_bootstrap_success calls continue_refresh on every bootstrap completion, while the previous
    // chain's TableRefresh timeout is still pending.  Count how many refresh rounds fire in the next 7 s.
    #[tokio::test(start_paused = true)]
    async fn one_refresh_chain_after_two_bootstrap_completions() {
        let socket = Socket::new(NullSocket).unwrap();
        let table = Arc::new(Mutex::new(RoutingTable::new([1u8; 20].into())));
        let mut aid = AIDGenerator::new();
        let mut refresh = TableRefresh::new(aid.generate(), table);
        let mut timer = Timer::new();

        refresh.continue_refresh(&socket, &mut timer).await; // first bootstrap completion
        refresh.continue_refresh(&socket, &mut timer).await; // re-bootstrap completion 1 s later (previous timeout still pending)

        let mut rounds = 0;
        let deadline = tokio::time::Instant::now() + Duration::from_millis(6500);
        loop {
            tokio::select! {
                t = timer.next(), if !timer.is_empty() => {
                    if let Some(ScheduledTaskCheck::TableRefresh) = t { rounds += 1; }
                }
                _ = tokio::time::sleep_until(deadline) => break,
            }
        }
        assert_eq!(rounds, 1, "two TableRefresh timeouts pending: every bootstrap completion started another self-rescheduling chain");
    }
}
