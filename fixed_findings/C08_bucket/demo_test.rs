// Demonstration of the genuine defect repaired by /repo commit 52b76b7 ("fix: Bucket::add_node prefers ...").
// Append to src/bucket.rs of the PINNED tree (39970e4) and run `cargo test --offline --lib verif_demo`: it fails
// (count == 1); with the fix it passes.
#[cfg(test)]
mod verif_demo {
    use crate::bucket::Bucket;
    use crate::node::{Node, NodeStatus};
    use crate::test;

    #[test]
    fn live_node_lost_while_bad_slots_remain() {
        let mut bucket = Bucket::new();
        let addrs = test::dummy_block_socket_addrs(2);
        let q = Node::as_questionable(test::dummy_node_id(), addrs[0]);
        let g = Node::as_good(test::dummy_node_id(), addrs[1]);
        assert!(bucket.add_node(q.clone()));
        assert!(bucket.add_node(g.clone()));
        // 8 slots, 2 offers: both must be present
        assert_eq!(bucket.pingable_nodes().count(), 2, "questionable node was overwritten although 7 unused slots follow");
        assert!(bucket.pingable_nodes().any(|n| n.status() == NodeStatus::Questionable));
    }
}
