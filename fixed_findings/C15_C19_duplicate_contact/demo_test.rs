// APPEND TO: tests/tests.rs  (run with: cargo test --offline --test tests c15_c19_demo)
// Without the fix: the bootstrap task panics at socket.rs:107 (pending (address, transaction id) inserted twice), the
// DhtHandler then panics at handler.rs:131 (state channel closed) and local_addr() returns "DhtHandler has shut down".
// demo: a contact given both as node and as router
#[tokio::test(flavor = "multi_thread")]
async fn c15_c19_demo_contact_given_as_node_and_router() {
    // the contact: a plain UDP socket that records the queries it is sent
    let contact = UdpSocket::bind(localhost(AddrFamily::V4)).await.unwrap();
    let contact_addr = contact.local_addr().unwrap();

    let a_socket = UdpSocket::bind(localhost(AddrFamily::V4)).await.unwrap();
    let a = MainlineDht::builder()
        .add_node(contact_addr)
        .add_router(contact_addr.to_string())
        .set_read_only(false)
        .start(a_socket)
        .unwrap();

    // everything the contact receives during the first 2 s (the first bootstrap round lasts 2.5 s)
    let mut seen: Vec<Vec<u8>> = Vec::new();
    let mut buf = [0u8; 1500];
    let deadline = tokio::time::Instant::now() + std::time::Duration::from_secs(2);
    while let Ok(Ok((n, _))) = tokio::time::timeout_at(deadline, contact.recv_from(&mut buf)).await {
        let msg = btdht::message::Message::decode(&buf[..n]).unwrap();
        seen.push(msg.transaction_id);
    }
    assert!(!seen.is_empty(), "the contact was never queried");
    let mut dedup = seen.clone();
    dedup.sort();
    dedup.dedup();
    assert_eq!(dedup.len(), seen.len(), "the same transaction id was sent twice to the same address: {seen:?}");

    // the node is still alive and answers API calls
    let r = tokio::time::timeout(std::time::Duration::from_secs(2), a.local_addr()).await;
    assert!(matches!(r, Ok(Ok(_))), "node stopped answering API calls: {r:?}");
}
