#!/bin/bash
# run every claimed check against /repo in one process (units and Kani harnesses are shared); evidence files are rewritten
cd /verif
./check --all --tier ${1:-quick}
