#!/bin/bash
# run every claimed quick check against /repo and report; evidence files are rewritten
cd /verif
for p in $(python3 -c "import sys; sys.path.insert(0,'.'); from vx import props; print(' '.join(sorted(props.PROPS)))"); do
  ./check $p --tier ${1:-quick} | tail -3
done
