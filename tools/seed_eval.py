#!/usr/bin/env python3
"""tools/seed_eval.py <agent_out_dir> <ID> <N> [--checks C05,C06,..]
Confirms a seeded change (compiles, existing suite passes, demo fails with it and passes without), runs the checks against it,
and stores it under /verif/seeded/<ID>-<N>/ (patch.diff, demo_test.rs, meta.json)."""
import json, os, re, shutil, subprocess, sys, time
out, pid, n = sys.argv[1:4]
checks = None
if "--checks" in sys.argv:
    checks = sys.argv[sys.argv.index("--checks") + 1].split(",")
src = os.path.join(out, "change%s" % n)
patch = os.path.join(src, "patch.diff")
demo = os.path.join(src, "demo_test.rs")
work = "/tmp/seedwork/%s-%s" % (pid, n)
shutil.rmtree(work, ignore_errors=True)
os.makedirs(work)
env = dict(os.environ, CARGO_TARGET_DIR="/tmp/seedwork/target-%s-%s" % (pid, n), CARGO_NET_OFFLINE="true")
def copy(name):
    d = os.path.join(work, name)
    subprocess.run(["rsync", "-a", "--exclude", "target", "--exclude", ".git", "/repo/", d + "/"], check=True)
    # cargo keys a workspace member's fingerprint by its path relative to the workspace root and by source mtimes: two copies
    # sharing one target directory can be handed each other's build.  Fresh mtimes force a rebuild of the crate in every copy.
    subprocess.run("find %s -name '*.rs' -o -name Cargo.toml | xargs touch" % d, shell=True)
    return d
def sh(cmd, cwd, timeout=1500):
    r = subprocess.run(cmd, cwd=cwd, shell=True, capture_output=True, text=True, env=env, timeout=timeout)
    return r.returncode, (r.stdout + r.stderr)
meta = {"property": pid, "change": int(n), "source": "independent sub-agent, given only the property text and a scratch worktree", "ran": []}
RECHECK = "--recheck" in sys.argv
dst0 = os.path.join(os.environ.get("VERIF_ROOT") or os.path.dirname(os.path.dirname(os.path.abspath(__file__))), "seeded", "%s-%s" % (pid, n))
if RECHECK and os.path.exists(os.path.join(dst0, "meta.json")):
    old = json.load(open(os.path.join(dst0, "meta.json")))
    meta["ran"], meta["confirmed"], meta["demo_appended_to"] = old["ran"], old["confirmed"], old.get("demo_appended_to")
    patch, demo = os.path.join(dst0, "patch.diff"), os.path.join(dst0, "demo_test.rs")
else:
    RECHECK = False
A = copy("with_change") if not RECHECK else None
if not RECHECK:
    rc, o = sh("patch -p1 -d %s < %s" % (A, patch), "/")
    if rc != 0:
        print("patch failed", o[-500:]); sys.exit(3)
    dl = open(demo).read().split("\n")
    m = re.search(r"(src/[A-Za-z0-9_/]+\.rs|tests/[A-Za-z0-9_/]+\.rs)", dl[0] + " " + (dl[1] if len(dl) > 1 else ""))
    target = m.group(1) if m else None
    meta["demo_appended_to"] = target
    # 1. suite with change
    rc, o = sh("cargo test --offline 2>&1 | grep -E '^test result|^error' ", A)
    suite_ok = "FAILED" not in o and "error" not in o and o.count("test result: ok") >= 2 and "62 passed" in o and "2 passed" in o
    meta["ran"].append({"cmd": "cargo test --offline (with change)", "ok": suite_ok, "out": o[-400:]})
    # extra dev-deps the demo may need (tokio test-util)
    def add_demo(d):
        with open(os.path.join(d, target), "a") as f:
            f.write("\n" + open(demo).read())
        if "start_paused" in open(demo).read() or "tokio::time::pause" in open(demo).read() or "time::advance" in open(demo).read():
            ct = open(os.path.join(d, "Cargo.toml")).read().replace('features = ["io-std", "io-util"] }', 'features = ["io-std", "io-util", "test-util"] }')
            open(os.path.join(d, "Cargo.toml"), "w").write(ct)
    demo_names = re.findall(r"fn\s+([a-z0-9_]+)\s*\(\s*\)", open(demo).read())
    modname = re.findall(r"mod\s+([a-z0-9_]+)\s*\{", open(demo).read())
    filt = modname[0] if modname else (demo_names[0] if demo_names else "")
    add_demo(A)
    rc1, o1 = sh("cargo test --offline %s 2>&1 | grep -E 'test result|panicked|FAILED|error\\[' | head -20" % filt, A)
    fails_with = "FAILED" in o1 or "failed" in o1
    meta["ran"].append({"cmd": "cargo test --offline %s (demo, with change)" % filt, "fails": fails_with, "out": o1[-600:]})
    B = copy("without_change")
    add_demo(B)
    rc2, o2 = sh("cargo test --offline %s 2>&1 | grep -E 'test result|panicked|FAILED|error\\[' | head -20" % filt, B)
    passes_without = "FAILED" not in o2 and "test result: ok" in o2 and "error[" not in o2
    meta["ran"].append({"cmd": "cargo test --offline %s (demo, without change)" % filt, "passes": passes_without, "out": o2[-600:]})
    meta["confirmed"] = bool(suite_ok and fails_with and passes_without)

# 2. checks against the change (fresh copy without demo)
C = copy("for_checks")
sh("patch -p1 -d %s < %s" % (C, patch), "/")
ROOT = os.environ.get("VERIF_ROOT") or os.path.dirname(os.path.dirname(os.path.abspath(__file__)))
sys.path.insert(0, ROOT)
from vx import props
ids = checks or sorted(props.PROPS)
res = {}
e2 = dict(os.environ, VERIF_REPO=C)
t0 = time.time()
r = subprocess.run(["./check"] + ids, cwd=ROOT, env=e2, capture_output=True, text=True)
summ = {}
for l in r.stdout.split("\n"):
    if l.startswith("SUMMARY "):
        summ = json.loads(l[8:])
if not summ and len(ids) == 1:
    summ = {ids[0]: r.returncode}
for c in ids:
    lines = [l for l in r.stdout.split("\n") if ("property=%s " % c) in l and l.startswith(("VIOLATION", "OK", "INCONCLUSIVE"))]
    res[c] = {"rc": summ.get(c, 2), "out": [l[:300] for l in lines[:3]]}
meta["checks_wall_s"] = round(time.time() - t0, 1)
meta["failed_obligations"] = [l[:200] for l in r.stdout.split("\n") if l.startswith("failed obligation")][:12]
meta["checks"] = res
meta["detected_by"] = [c for c, v in res.items() if v["rc"] == 1]
meta["inconclusive"] = [c for c, v in res.items() if v["rc"] == 2]
dst = os.path.join(ROOT, "seeded", "%s-%s" % (pid, n))
os.makedirs(dst, exist_ok=True)
if not RECHECK:
    shutil.copy(patch, dst); shutil.copy(demo, dst)
    if os.path.exists(os.path.join(src, "notes.md")): shutil.copy(os.path.join(src, "notes.md"), dst)
json.dump(meta, open(os.path.join(dst, "meta.json"), "w"), indent=1)
shutil.rmtree(work, ignore_errors=True); shutil.rmtree(env["CARGO_TARGET_DIR"], ignore_errors=True)
print(pid, n, "confirmed" if meta["confirmed"] else "NOT-CONFIRMED", "detected_by", meta["detected_by"], "inconclusive", meta["inconclusive"])
