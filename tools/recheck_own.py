#!/usr/bin/env python3
"""tools/recheck_own.py <ID> <N> : apply seeded/<ID>-<N>/patch.diff to a scratch copy of /repo, run the check of the seed's OWN property on it and
store the outcome in meta.json under "own_final" (rc, first lines, commit of /verif).  Used for the final table: the full cross-property sweeps
(meta["checks"]) take several hours on 90 seeds x 20 properties."""
import json, os, subprocess, sys, shutil
ROOT = os.path.dirname(os.path.dirname(os.path.abspath(__file__)))
pid, n = sys.argv[1:3]
d = os.path.join(ROOT, "seeded", "%s-%s" % (pid, n))
work = "/tmp/seedwork/own-%s-%s" % (pid, n)
shutil.rmtree(work, ignore_errors=True); os.makedirs(work)
subprocess.run(["rsync", "-a", "--exclude", "target", "--exclude", ".git", "/repo/", work + "/"], check=True)
r = subprocess.run("patch -s -p1 -d %s < %s" % (work, os.path.join(d, "patch.diff")), shell=True)
if r.returncode != 0:
    print(pid, n, "PATCH FAILED"); sys.exit(3)
env = dict(os.environ, VERIF_REPO=work)
r = subprocess.run(["./check", pid], cwd=ROOT, env=env, capture_output=True, text=True)
lines = [l[:300] for l in r.stdout.split("\n") if l.startswith(("VIOLATION", "OK", "INCONCLUSIVE", "failed obligation"))][:4]
meta = json.load(open(os.path.join(d, "meta.json")))
commit = subprocess.run(["git", "-C", ROOT, "rev-parse", "--short", "HEAD"], capture_output=True, text=True).stdout.strip()
meta["own_final"] = {"rc": r.returncode, "out": lines, "verif_commit": commit}
json.dump(meta, open(os.path.join(d, "meta.json"), "w"), indent=1)
shutil.rmtree(work, ignore_errors=True)
print(pid, n, {0: "MISSED", 1: "CAUGHT", 2: "exit 2"}.get(r.returncode, r.returncode))
