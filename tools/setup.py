#!/usr/bin/env python3
"""setup: nothing to build (Python + pre-installed verifiers); warm up Verus once and check the tools exist"""
import shutil, subprocess, sys, os, tempfile
for t in ("verus", "git", "cargo-kani"):
    if not shutil.which(t):
        print("missing tool:", t); sys.exit(1)
d = tempfile.mkdtemp()
open(os.path.join(d, "w.rs"), "w").write("use vstd::prelude::*;\nverus!{ proof fn t() ensures 1 + 1 == 2int {} }\nfn main(){}\n")
r = subprocess.run(["verus", "w.rs"], cwd=d, capture_output=True, text=True)
shutil.rmtree(d, ignore_errors=True)
print("verus warm-up:", r.stdout.strip().split("\n")[-1] if r.stdout else r.stderr[-300:])
sys.exit(0 if r.returncode == 0 else 1)
