#!/usr/bin/env python3
"""tools/mut.py <unit-or-prop> <file> <old> <new> : apply a textual mutation to a scratch copy of /repo and run the dev verifier / check"""
import subprocess, sys, os
target, f, old, new = sys.argv[1:5]
scr = "/tmp/scr/repo"
subprocess.run(["rsync", "-a", "--delete", "--exclude", "target", "--exclude", ".git", "/repo/", scr + "/"], check=True)
p = os.path.join(scr, f)
s = open(p).read()
if old not in s:
    print("PATTERN NOT FOUND"); sys.exit(3)
open(p, "w").write(s.replace(old, new, 1))
env = dict(os.environ, VERIF_REPO=scr)
if target.startswith("C") and target[1:].isdigit():
    r = subprocess.run(["./check", target], env=env, capture_output=True, text=True, cwd="/verif")
    print(r.stdout[-1500:]); print("rc", r.returncode)
else:
    r = subprocess.run(["python3", "-m", "vx.dev", target], env=env, capture_output=True, text=True, cwd="/verif")
    print("\n".join(l for l in r.stdout.split("\n") if l.startswith(("FAIL", "HARD", "INCON", "changed", "{'enc"))))
