#!/usr/bin/env python3
"""one-off helper: wrap named functions of a hand-assembled Verus file in //@begin fn ... //@end markers.
usage: mkregions.py <template> <src> <container|-> <name>[:props] ..."""
import re, sys
sys.path.insert(0, __file__.rsplit('/', 2)[0])
from vx import lex
path, src, cont = sys.argv[1:4]
names = sys.argv[4:]
s = open(path).read()
for spec in names:
    name, _, props = spec.partition(':')
    # find "fn name(" or "fn name<" occurrences not already in a region, matching container by nearest preceding impl line
    cands = [m for m in re.finditer(r'^([ \t]*)(pub(?:\([a-z]+\))? )?((?:async )?fn ' + re.escape(name) + r')\b', s, re.M)]
    done = False
    for m in cands:
        # container check: last "impl ... {" before m at column 0
        pre = s[:m.start()]
        impls = list(re.finditer(r'^impl(?:<[^>]*>)?\s+([^\n{]*?)\s*\{', pre, re.M))
        in_impl = None
        if impls and m.group(1):   # indented => inside impl
            in_impl = re.sub(r'\s+', '', impls[-1].group(1)).replace('for', '@for@') if ' for ' in impls[-1].group(1) else re.sub(r'\s+', '', impls[-1].group(1))
        want = None if cont == '-' else cont.split(':', 1)[1]
        if in_impl != want:
            continue
        if pre.rstrip().endswith('//@begin fn %s %s %s' % (src, cont, name)) or re.search(r'//@begin fn [^\n]* ' + re.escape(name) + r'[^\n]*\n$', pre):
            done = True
            break
        # find end: tokenise from m.start(), find first '{' at depth 0 that begins the body = last top-level block
        toks = lex.tokenize_pos(s[m.start():])
        plain = [t for t, _, _ in toks]
        # body: first '{' at paren-depth 0 that is NOT inside spec clauses is hard; use: function ends at the '}' matching the
        # last depth-0 '{' before the first depth-0 position where brace depth returns to 0 after seeing 'fn'
        depth = 0; end = None; i = 0
        # skip signature to first '{' at depth 0 ... but spec clauses may contain braces within parens only (style rule)
        while i < len(plain):
            t = plain[i]
            if t in ('(', '['):
                i = lex.match_close(plain, i) + 1; continue
            if t == '{':
                j = lex.match_close(plain, i)
                # is this the body? body is followed by something that is not a spec continuation (',' or '&&' etc.)
                end = j; break
            i += 1
        endpos = m.start() + toks[end][2]
        text = s[m.start():endpos]
        if m.group(2) is None and '@for@' not in cont:
            text = m.group(1) + 'pub ' + text[len(m.group(1)):]
        hdr = '//@begin fn %s %s %s%s\n' % (src, cont, name, (' props=' + props) if props else '')
        s = s[:m.start()] + hdr + text + '\n//@end' + s[endpos:]
        done = True
        break
    if not done:
        print('NOT FOUND', name)
open(path, 'w').write(s)
