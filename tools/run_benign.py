#!/usr/bin/env python3
"""tools/run_benign.py [id-substring..] : apply each behaviour-preserving edit of tools/benign.json to a scratch copy of /repo, confirm that it
compiles (cargo check) and run every check; a VIOLATION (rc 1) on any of them is a FALSE ALARM of the machinery."""
import json, os, shutil, subprocess, sys
HERE = os.path.dirname(os.path.dirname(os.path.abspath(__file__)))
cat = json.load(open(os.path.join(HERE, "tools", "benign.json")))
sel = [m for m in cat if not sys.argv[1:] or any(a in m["id"] for a in sys.argv[1:])]
bad = 0
for m in sel:
    d = "/tmp/scr/benign-%d" % os.getpid()
    shutil.rmtree(d, ignore_errors=True); os.makedirs("/tmp/scr", exist_ok=True)
    subprocess.run(["rsync", "-a", "--exclude", "target", "--exclude", ".git", "/repo/", d + "/"], check=True)
    f = os.path.join(d, m["file"]); txt = open(f).read()
    if m["old"] not in txt:
        print(m["id"], "PATTERN NOT FOUND"); continue
    txt = txt.replace(m["old"], m["new"], 1)
    for a, b in m.get("also", []):
        txt = txt.replace(a, b)
    txt += m.get("append", "")
    open(f, "w").write(txt)
    c = subprocess.run("cargo check --offline --lib 2>&1 | tail -3", shell=True, cwd=d, capture_output=True, text=True, env=dict(os.environ, CARGO_TARGET_DIR="/tmp/scr/benign-target"))
    compiles = "error" not in c.stdout
    env = dict(os.environ, VERIF_REPO=d, VERIF_NO_SELFTEST="1", VERIF_EVIDENCE_SUFFIX=".mut")
    r = subprocess.run([os.path.join(HERE, "check"), "--all"], env=env, capture_output=True, text=True)
    summ = [l for l in r.stdout.split("\n") if l.startswith("SUMMARY")]
    s = json.loads(summ[0][8:]) if summ else {}
    alarms = [k for k, v in s.items() if v == 1]; inc = [k for k, v in s.items() if v == 2]
    print(m["id"], "compiles" if compiles else "DOES-NOT-COMPILE", "FALSE-ALARMS", alarms, "inconclusive", inc)
    for l in r.stdout.split("\n"):
        if l.startswith(("failed obligation", "INCONCLUSIVE")): print("     ", l[:260])
    bad += len(alarms)
    shutil.rmtree(d, ignore_errors=True)
sys.exit(1 if bad else 0)
