#!/usr/bin/env python3
"""rewrites the seeded-change table in DESIGN.md from seeded/*/meta.json"""
import glob, json, os, re
HERE = os.path.dirname(os.path.dirname(os.path.abspath(__file__)))
rows = []
SUM = json.load(open(os.path.join(HERE, "tools", "seed_summaries.json")))
for f in sorted(glob.glob(os.path.join(HERE, "seeded", "*", "meta.json"))):
    m = json.load(open(f))
    d = os.path.basename(os.path.dirname(f))
    what = m.get("summary") or SUM.get(d, "")
    det = ", ".join(m.get("detected_by", [])) or "—"
    inc = ", ".join(m.get("inconclusive", [])) or "—"
    of = m.get("own_final")
    if of:
        ownres = {1: "**yes**", 2: "exit 2", 0: "no"}.get(of["rc"], str(of["rc"]))
    else:
        own = m["property"] in m.get("detected_by", [])
        ownres = "**yes**" if own else ("exit 2" if m["property"] in m.get("inconclusive", []) else "no")
    rows.append("| %s | %s | %s | %s | %s | %s |" % (d, "yes" if m.get("confirmed") else "NO", what, ownres, det, inc))
tbl = "| change | confirmed (suite passes, demo fails/passes) | what it does | caught by its own property's check (final tree) | checks raising VIOLATION (last full sweep) | checks exiting 2 (last full sweep) |\n|---|---|---|---|---|---|\n" + "\n".join(rows)
p = os.path.join(HERE, "DESIGN.md")
s = open(p).read()
s = re.sub(r"<!-- SEEDED-TABLE-BEGIN -->.*<!-- SEEDED-TABLE-END -->", "<!-- SEEDED-TABLE-BEGIN -->\n" + tbl + "\n<!-- SEEDED-TABLE-END -->", s, flags=re.S)
open(p, "w").write(s)
print(len(rows), "rows")
