#!/usr/bin/env python3
"""writes /verif/MANIFEST.json from vx/props.py (claimed checks) and the not-applicable table below"""
import json, os, sys
HERE = os.path.dirname(os.path.dirname(os.path.abspath(__file__)))
sys.path.insert(0, HERE)
from vx import props as P

NA = {
}
NOT_REACHED = "claimed in DESIGN.md but its unit is not built yet in this tree (contract-based check planned; never claimed in weakened form)"

BASE = json.load(open("/root/.vp/BASELINE.json"))["cmd"]

def main():
    checks = []
    for pid in sorted(P.PROPS):
        c = P.PROPS[pid]
        checks.append({
            "property_id": pid,
            "quick_cmd": "./check %s --tier quick" % pid,
            "thorough_cmd": "./check %s --tier thorough" % pid,
            "evidence_file": "/verif/evidence/%s.json" % pid,
            "replay_cmd_template": "./check %s --replay {path}" % pid,
            "engine": "+".join((["vx"] if c["units"] else []) + (["kx"] if (c.get("kani") or any(P.UNIT_KANI.get(u) for u in c["units"])) else [])),
            "level_claimed": {"category": c["level"], "text": c["level_text"], "design_ref": c.get("design_ref", "DESIGN.md §5")},
            "level_note": c["level_note"],
            "technique": c["technique"],
        })
    allp = [json.loads(l)["id"] for l in open(os.path.join(HERE, "properties.jsonl"))]
    na = []
    for pid in allp:
        if pid in P.PROPS:
            continue
        na.append({"property_id": pid, "reason": NA.get(pid, NOT_REACHED)})
    m = {
        "version": 1,
        "setup_cmd": "python3 tools/setup.py",
        "hooks": {"guard": "equalitie_btdht_verif", "enable": "no hooks are needed: nothing is executed, the verifiers read /repo's source text (Verus) or a scratch copy with #[cfg(kani)] harness modules appended (Kani)",
                  "baseline_off_cmd": BASE, "source_commits": [], "add_only": True},
        "engines": [
            {"name": "vx", "path": "/verif/vx", "serves_properties": [p for p in sorted(P.PROPS) if P.PROPS[p]["units"]],
             "kind_free_text": "contract-based deductive verification: Verus 0.2026.09.13 on functions extracted mechanically from /repo on every run (ghost-erasure check keeps the verified text identical to the repository text)"},
            {"name": "kx", "path": "/verif/vx/kx.py", "serves_properties": [p for p in sorted(P.PROPS) if P.PROPS[p].get("kani") or any(P.UNIT_KANI.get(u) for u in P.PROPS[p]["units"])],
             "kind_free_text": "Kani 0.68 / CBMC 6.11 harnesses over full-domain symbolic inputs, injected into a per-run scratch copy of the real crate"},
        ],
        "checks": checks,
        "not_applicable": na,
        "notes": "exit 2 of a check = inconclusive (lost anchor, merge conflict, erasure check, unsupported construct, rlimit), never an alarm. See DESIGN.md.",
    }
    json.dump(m, open(os.path.join(HERE, "MANIFEST.json"), "w"), indent=1)
    print("MANIFEST.json: %d checks, %d not applicable" % (len(checks), len(na)))

main()
