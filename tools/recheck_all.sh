#!/bin/bash
# re-run every check against every stored seeded change (from the directory this script lives in: works in a `vp run` snapshot)
cd "$(dirname "$0")/.."
ls seeded | awk -F- '{print $1, $2}' | xargs -P ${1:-3} -L 1 sh -c 'python3 tools/seed_eval.py /nonexistent $0 $1 --recheck 2>&1 | tail -1'
