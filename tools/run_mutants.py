#!/usr/bin/env python3
"""tools/run_mutants.py <id-substring>... : apply the named catalogue mutants (tools/mutants.json) one by one to a scratch copy of /repo and
run the quick check of each of their properties; prints rc per property (1 = killed, 2 = inconclusive, 0 = survived)"""
import json, os, shutil, subprocess, sys
HERE = os.path.dirname(os.path.dirname(os.path.abspath(__file__)))
cat = json.load(open(os.path.join(HERE, "tools", "mutants.json")))
sel = [m for m in cat if any(a in m["id"] for a in sys.argv[1:])]
for m in sel:
    d = "/tmp/scr/mutrun-%d" % os.getpid()
    shutil.rmtree(d, ignore_errors=True); os.makedirs("/tmp/scr", exist_ok=True)
    subprocess.run(["rsync", "-a", "--exclude", "target", "--exclude", ".git", "/repo/", d + "/"], check=True)
    f = os.path.join(d, m["file"]); txt = open(f).read()
    if m["old"] not in txt:
        print(m["id"], "PATTERN NOT FOUND"); continue
    open(f, "w").write(txt.replace(m["old"], m["new"], 1))
    env = dict(os.environ, VERIF_REPO=d, VERIF_NO_SELFTEST="1", VERIF_EVIDENCE_SUFFIX=".mut")
    r = subprocess.run([os.path.join(HERE, "check")] + m["props"], env=env, capture_output=True, text=True)
    lines = [l[:220] for l in r.stdout.split("\n") if l.startswith(("VIOLATION", "failed obligation", "INCONCLUSIVE", "OK"))]
    print(m["id"], m["props"], "rc", r.returncode); [print("    ", l) for l in lines[:5]]
    shutil.rmtree(d, ignore_errors=True)
