// APPEND TO: src/handler.rs  (run with: cargo test --offline --lib verif_c17_demo)
// Demonstration of the genuine defect recorded as KNOWN FINDING for C17: the `values` of a get_peers reply are not capped,
// so with 106 or more IPv4 peers (41 or more IPv6 peers) stored for one info-hash the reply datagram exceeds 1500 bytes,
// the size of the receive buffer of every instance of this implementation (socket.rs:73).
#[cfg(test)]
mod verif_c17_demo {
    use super::*;
    use crate::message::{AnnouncePeerRequest, GetPeersRequest};
    use crate::SocketTrait;
    use async_trait::async_trait;
    use std::io;

    type Sent = Arc<Mutex<Vec<(Vec<u8>, SocketAddr)>>>;
    struct MockSocket { sent: Sent }
    #[async_trait]
    impl SocketTrait for MockSocket {
        async fn send_to(&self, buf: &[u8], target: &SocketAddr) -> io::Result<()> { self.sent.lock().unwrap().push((buf.to_vec(), *target)); Ok(()) }
        async fn recv_from(&self, _buf: &mut [u8]) -> io::Result<(usize, SocketAddr)> { std::future::pending().await }
        fn local_addr(&self) -> io::Result<SocketAddr> { Ok("127.0.0.1:6881".parse().unwrap()) }
    }

    #[tokio::test]
    async fn get_peers_reply_fits_the_receive_buffer() {
        let sent: Sent = Arc::new(Mutex::new(Vec::new()));
        let socket = Socket::new(MockSocket { sent: sent.clone() }).unwrap();
        let (_command_tx, command_rx) = mpsc::unbounded_channel();
        let mut handler = DhtHandler::new(NodeId::from([0u8; 20]), socket, false, HashSet::new(), HashSet::new(), None, command_rx);
        let info_hash = InfoHash::from([0xabu8; 20]);
        // 200 different peers announce the same info-hash (each with a token obtained for its own IP)
        for i in 0..200u32 {
            let from: SocketAddr = format!("10.0.{}.{}:4000", i / 250, i % 250 + 1).parse().unwrap();
            let gp = Message { transaction_id: b"gp".to_vec(), body: MessageBody::Request(Request::GetPeers(GetPeersRequest { id: NodeId::from([1u8; 20]), info_hash, want: None })) };
            handler.handle_incoming(gp, from).await.unwrap();
            let (bytes, _) = sent.lock().unwrap().pop().unwrap();
            let token = match Message::decode(&bytes).unwrap().body { MessageBody::Response(r) => r.token.unwrap(), _ => panic!() };
            let an = Message { transaction_id: b"an".to_vec(), body: MessageBody::Request(Request::AnnouncePeer(AnnouncePeerRequest { id: NodeId::from([1u8; 20]), info_hash, port: None, token })) };
            handler.handle_incoming(an, from).await.unwrap();
            sent.lock().unwrap().clear();
        }
        let asker: SocketAddr = "10.9.9.9:4000".parse().unwrap();
        let gp = Message { transaction_id: b"gp".to_vec(), body: MessageBody::Request(Request::GetPeers(GetPeersRequest { id: NodeId::from([1u8; 20]), info_hash, want: None })) };
        handler.handle_incoming(gp, asker).await.unwrap();
        let (bytes, _) = sent.lock().unwrap().pop().unwrap();
        assert!(bytes.len() <= 1500, "get_peers reply is {} bytes long: it cannot be received by another instance (1500-byte buffer)", bytes.len());
    }
}
