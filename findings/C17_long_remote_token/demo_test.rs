// APPEND TO: src/action/lookup.rs  (run with: cargo test --offline --lib verif_c17_long_token_demo)
// Demonstration of the genuine defect recorded as KNOWN FINDING for C17 (announce_peer): a search echoes the token a remote node
// handed out, whatever its length.  A get_peers response carrying a 1400-byte token is 1470 bytes long, so it fits the 1500-byte
// receive buffer and is accepted; the announce_peer sent back to that node carries the same token plus info-hash, own id and
// port and exceeds 1500 bytes.
#[cfg(test)]
mod verif_c17_long_token_demo {
    use super::*;
    use crate::{message::Message, node::Node, table::RoutingTable, transaction::AIDGenerator, SocketTrait};
    use async_trait::async_trait;
    use std::io;

    type Sent = Arc<Mutex<Vec<(Vec<u8>, SocketAddr)>>>;
    struct MockSocket { sent: Sent }
    #[async_trait]
    impl SocketTrait for MockSocket {
        async fn send_to(&self, buf: &[u8], target: &SocketAddr) -> io::Result<()> { self.sent.lock().unwrap().push((buf.to_vec(), *target)); Ok(()) }
        async fn recv_from(&self, _: &mut [u8]) -> io::Result<(usize, SocketAddr)> { std::future::pending().await }
        fn local_addr(&self) -> io::Result<SocketAddr> { Ok("10.0.0.1:6881".parse().unwrap()) }
    }

    #[tokio::test]
    async fn announce_fits_the_receive_buffer() {
        let sent: Sent = Default::default();
        let socket = Socket::new(MockSocket { sent: sent.clone() }).unwrap();
        let mut timer = Timer::new();
        let mut own = [0u8; INFO_HASH_LEN]; own[0] = 0xff;
        let table = Arc::new(Mutex::new(RoutingTable::new(own.into())));
        let mut rid = [0u8; INFO_HASH_LEN]; rid[0] = 0x40;
        let remote = NodeHandle::new(rid.into(), "10.0.0.40:4000".parse().unwrap());
        table.lock().unwrap().add_node(Node::as_good(remote.id, remote.addr));
        let (tx, _rx) = mpsc::unbounded_channel();
        let mut lookup = TableLookup::new([0u8; INFO_HASH_LEN].into(), true, tx, AIDGenerator::new().generate(), table.clone(), &socket, &mut timer).await;
        // the get_peers query sent to the remote node
        let (bytes, _) = sent.lock().unwrap().iter().find(|(_, a)| *a == remote.addr).cloned().expect("remote was queried");
        let query = Message::decode(&bytes).unwrap();
        let tid = TransactionID::from_bytes(&query.transaction_id).unwrap();
        // its answer: a 1400-byte token
        let rsp = Response { id: remote.id, values: vec![], nodes_v4: vec![], nodes_v6: vec![], token: Some(vec![b't'; 1400]) };
        let rsp_len = Message { transaction_id: query.transaction_id.clone(), body: MessageBody::Response(rsp.clone()) }.encode().unwrap().len();
        assert!(rsp_len <= 1500, "the response itself must fit the receive buffer ({} bytes)", rsp_len);
        lookup.recv_response(Node::as_good(remote.id, remote.addr), &tid, rsp, &socket, &mut timer).await;
        sent.lock().unwrap().clear();
        lookup.recv_finished(Some(6881), &socket).await;
        let sent = sent.lock().unwrap();
        assert_eq!(sent.len(), 1, "one announce_peer expected");
        assert!(sent[0].0.len() <= 1500, "announce_peer echoing the token of a {}-byte response is {} bytes long: it cannot be received by another instance (1500-byte buffer)", rsp_len, sent[0].0.len());
    }
}
