// APPEND TO: src/handler.rs  (run with: cargo test --offline --lib verif_c17_long_tid_demo)
// Demonstration of the genuine defect recorded as KNOWN FINDING for C17 (find_node): a reply echoes the query's transaction id
// whole.  A find_node query with a 1000-byte transaction id is about 1.1 kB long, so it fits the 1500-byte receive buffer and
// is handled; the reply carries the same id plus up to 8 compact nodes (208 bytes) and exceeds 1500 bytes.
#[cfg(test)]
mod verif_c17_long_tid_demo {
    use super::*;
    use crate::message::FindNodeRequest;
    use crate::SocketTrait;
    use async_trait::async_trait;
    use std::io;

    type Sent = Arc<Mutex<Vec<(Vec<u8>, SocketAddr)>>>;
    struct MockSocket { sent: Sent }
    #[async_trait]
    impl SocketTrait for MockSocket {
        async fn send_to(&self, buf: &[u8], target: &SocketAddr) -> io::Result<()> { self.sent.lock().unwrap().push((buf.to_vec(), *target)); Ok(()) }
        async fn recv_from(&self, _buf: &mut [u8]) -> io::Result<(usize, SocketAddr)> { std::future::pending().await }
        fn local_addr(&self) -> io::Result<SocketAddr> { Ok("127.0.0.1:6881".parse().unwrap()) }
    }

    #[tokio::test]
    async fn find_node_reply_fits_the_receive_buffer() {
        let sent: Sent = Arc::new(Mutex::new(Vec::new()));
        let socket = Socket::new(MockSocket { sent: sent.clone() }).unwrap();
        let (_command_tx, command_rx) = mpsc::unbounded_channel();
        let mut handler = DhtHandler::new(NodeId::from([0u8; 20]), socket, false, HashSet::new(), HashSet::new(), None, command_rx);
        // 8 good nodes in the routing table
        for i in 0..8u8 {
            let mut id = [0u8; 20];
            id[0] = 0x80 | i;
            id[19] = i + 1;
            let addr: SocketAddr = format!("10.0.0.{}:4000", i + 1).parse().unwrap();
            handler.routing_table.lock().unwrap().add_node(Node::as_good(NodeId::from(id), addr));
        }
        let query = Message { transaction_id: vec![b'x'; 1300], body: MessageBody::Request(Request::FindNode(FindNodeRequest { id: NodeId::from([1u8; 20]), target: NodeId::from([0x80u8; 20]), want: None })) };
        let query_len = query.encode().unwrap().len();
        assert!(query_len <= 1500, "the query itself must fit the receive buffer ({} bytes)", query_len);
        handler.handle_incoming(query, "10.9.9.9:4000".parse().unwrap()).await.unwrap();
        let (bytes, _) = sent.lock().unwrap().pop().unwrap();
        assert!(bytes.len() <= 1500, "find_node reply to a {}-byte query is {} bytes long: it cannot be received by another instance (1500-byte buffer)", query_len, bytes.len());
    }
}
